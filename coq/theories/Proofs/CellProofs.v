(* Generic facts about the mask-respecting combinator, and from them: the range theorem (C04), the mask law
   (C03) and shape preservation (C05) for all 31 command models. *)
From Coq Require Import QArith Qminmax Qabs List Bool ZArith Lia Lqa.
From MP Require Import Model.Cells.
Import ListNotations.
Open Scope Q_scope.

(* ---------- clamp ---------- *)
Lemma clamp2_range lo hi x : lo <= hi -> lo <= clamp2 lo hi x <= hi.
Proof. intros H. unfold clamp2. destruct (Qlt_le_dec hi x) as [A|A].
  - destruct (Qlt_le_dec hi lo) as [B|B]; lra.
  - destruct (Qlt_le_dec x lo) as [B|B]; lra. Qed.
Lemma fz_range x : -1 <= fz x <= 1.
Proof. apply clamp2_range. unfold Qle; simpl; lia. Qed.
Lemma clamp2_id lo hi x : lo <= x <= hi -> clamp2 lo hi x = x.
Proof. intros [A B]. unfold clamp2. destruct (Qlt_le_dec hi x) as [C|C]; [lra|].
  destruct (Qlt_le_dec x lo) as [D|D]; [lra | reflexivity]. Qed.
Lemma fz_id x : -1 <= x <= 1 -> fz x = x.
Proof. apply clamp2_id. Qed.
Lemma clamp2_proper lo hi x y : x == y -> clamp2 lo hi x == clamp2 lo hi y.
Proof. intros E. unfold clamp2.
  destruct (Qlt_le_dec hi x), (Qlt_le_dec hi y); try lra;
  repeat match goal with |- context [Qlt_le_dec ?a ?b] => destruct (Qlt_le_dec a b) end; lra. Qed.
Lemma fz_proper x y : x == y -> fz x == fz y.
Proof. apply clamp2_proper. Qed.
Lemma Qred_range lo hi q : lo <= q <= hi -> lo <= Qred q <= hi.
Proof. intros H. rewrite (Qred_correct q). exact H. Qed.

(* ---------- the combinator ---------- *)
Definition isnone (c : cell) : bool := match c with None => true | Some _ => false end.
Definition any_none (col : list cell) : bool := existsb isnone col.

Lemma all_some_none col : all_some col = None <-> any_none col = true.
Proof. induction col as [|c col IH]; simpl; [split; discriminate|]. destruct c as [q|]; simpl.
  - destruct (all_some col); [split; [discriminate | intros H; apply IH in H; discriminate] | tauto].
  - tauto. Qed.
Lemma all_some_length col vs : all_some col = Some vs -> length vs = length col.
Proof. revert vs. induction col as [|c col IH]; simpl; intros vs H.
  - inversion H. reflexivity.
  - destruct c as [q|]; [|discriminate]. destruct (all_some col) as [l|]; [|discriminate]. inversion H; subst. simpl. f_equal. auto. Qed.
Lemma all_some_map_Some vs : all_some (map Some vs) = Some vs.
Proof. induction vs as [|v vs IH]; simpl; [reflexivity|]. rewrite IH. reflexivity. Qed.

Lemma cw_length f cols : length (cw f cols) = length cols. Proof. apply map_length. Qed.

(* a result cell is missing exactly when some input cell of its column is missing or f is undefined there *)
Definition undefined_at (f : list Q -> option Q) (col : list cell) : bool :=
  match all_some col with Some vs => isnone (f vs) | None => false end.
Lemma cw_cell_mask f col : isnone (cw_cell f col) = any_none col || undefined_at f col.
Proof. unfold cw_cell, undefined_at. destruct (all_some col) as [vs|] eqn:E.
  - assert (A : any_none col = false). { destruct (any_none col) eqn:A; [|reflexivity]. apply all_some_none in A. congruence. }
    rewrite A. destruct (f vs); reflexivity.
  - apply all_some_none in E. rewrite E. reflexivity. Qed.
Theorem cw_mask_law f cols : map isnone (cw f cols) = map (fun col => any_none col || undefined_at f col) cols.
Proof. unfold cw. rewrite map_map. apply map_ext. intros col. apply cw_cell_mask. Qed.

(* predicates on result cells *)
Definition cellP (R : Q -> Prop) (c : cell) : Prop := match c with Some q => R q | None => True end.
Definition resP (R : Q -> Prop) (r : res arr) : Prop :=
  match r with ROk a => Forall (cellP R) (a_cells a) | RErr _ => True end.
Lemma cw_P (R : Q -> Prop) f cols : (forall vs q, f vs = Some q -> R (Qred q)) -> Forall (cellP R) (cw f cols).
Proof. intros H. unfold cw. apply Forall_forall. intros c Hc. apply in_map_iff in Hc. destruct Hc as [col [<- _]].
  unfold cw_cell. destruct (all_some col) as [vs|]; simpl; [|exact I]. destruct (f vs) as [q|] eqn:E; simpl; [eapply H; eauto | exact I]. Qed.

(* columns *)
Lemma col_at_length ins i : length (col_at ins i) = length ins.
Proof. apply map_length. Qed.
Lemma cols_of_length ins : length (cols_of ins) = ncells ins.
Proof. unfold cols_of. rewrite map_length, seq_length. reflexivity. Qed.
Lemma cols_of_col_length ins col : In col (cols_of ins) -> length col = length ins.
Proof. unfold cols_of. intros H. apply in_map_iff in H. destruct H as [i [<- _]]. apply col_at_length. Qed.

(* ---------- run: the representation is definitional ---------- *)
Lemma run_ok c ins r : run c ins = ROk r ->
  pre c ins = None /\ a_dt r = odt c ins /\ a_shape r = first_shape ins /\
  a_cells r = cw (colf c ins) (cols_of (map a_cells ins)).
Proof. unfold run. destruct (pre c ins); [discriminate|]. intros H. inversion H; subst. simpl. auto. Qed.
Lemma run_err c ins e : run c ins = RErr e <-> pre c ins = Some e.
Proof. unfold run. destruct (pre c ins); split; intros H; inversion H; subst; reflexivity. Qed.

(* ---------- C05 (first half): shape and number of cells ---------- *)
Definition shapeP (sh : list nat) (r : res arr) : Prop := match r with ROk a => a_shape a = sh | RErr _ => True end.
Theorem run_shape c ins : shapeP (first_shape ins) (run c ins).
Proof. unfold run. destruct (pre c ins); simpl; auto. Qed.
Theorem run_ncells c ins r : run c ins = ROk r -> length (a_cells r) = ncells (map a_cells ins).
Proof. intros H. apply run_ok in H. destruct H as (_ & _ & _ & ->). rewrite cw_length. apply cols_of_length. Qed.

(* ---------- C04 ---------- *)
Definition fuzzy_cmd (c : ecmd) : bool :=
  match c with
  | CvtToFuzzy _ _ _ | CvtToFuzzyZScore _ _ _ | CvtToFuzzyCat _ _ _ | CvtToFuzzyCurve _ _ | CvtToFuzzyMeanToMid _ _
  | CvtToFuzzyCurveZScore _ _ _ | CvtToBinary _ _ | FuzzyUnion | FuzzyWeightedUnion _ | FuzzySelectedUnion _ _
  | FuzzyOr | FuzzyAnd | FuzzyXOr | FuzzyNot => true
  | _ => false
  end.

Definition in_fz (q : Q) : Prop := -1 <= q <= 1.
Lemma ofz_in o q : ofz o = Some q -> in_fz q.
Proof. destruct o; simpl; intros H; inversion H; subst. apply fz_range. Qed.
Lemma u1_in f vs q : (forall x q, f x = Some q -> in_fz q) -> u1 f vs = Some q -> in_fz q.
Proof. intros H. destruct vs as [|x [|y t]]; simpl; try discriminate. apply H. Qed.

(* every value a fuzzy command computes for a column has been through the clamp *)
Lemma fuzzy_colf c ins vs q : fuzzy_cmd c = true -> colf c ins vs = Some q -> in_fz q.
Proof.
  destruct c; intros Hc; try discriminate Hc; clear Hc; unfold colf.
  - destruct (ctf_thresholds t f d (vals_of ins)) as [[tv fv]|]; apply u1_in; intros x q0; [apply ofz_in|]. intros H; inversion H; subst. unfold in_fz. lra.
  - apply u1_in. intros x q0. apply ofz_in.
  - apply u1_in. intros x q0 H. inversion H; subst. apply fz_range.
  - apply u1_in. intros x q0. apply ofz_in.
  - apply u1_in. intros x q0. apply ofz_in.
  - apply u1_in. intros x q0. apply ofz_in.
  - apply u1_in. intros x q0 H. inversion H; subst. apply fz_range.
  - intros H. inversion H; subst. apply fz_range.
  - apply ofz_in.
  - destruct truest as [tr|]; [|discriminate]. unfold sel_union. intros H. inversion H; subst. apply fz_range.
  - apply ofz_in.
  - apply ofz_in.
  - unfold xor_cell. destruct (rev (sortq vs)) as [|t1 [|t2 r]]; try discriminate. intros H. inversion H; subst. apply fz_range.
  - apply u1_in. intros x q0 H. inversion H; subst. apply fz_range.
Qed.

Theorem fuzzy_range c ins : fuzzy_cmd c = true -> resP in_fz (run c ins).
Proof. intros Hc. unfold run. destruct (pre c ins); simpl; [exact I|]. apply cw_P. intros vs q H.
  apply Qred_range. eapply fuzzy_colf; eauto. Qed.

(* ---------- C03: the mask law ---------- *)
Definition in_cols (ins : list arr) : list (list cell) := cols_of (map a_cells ins).

Theorem run_mask_law c ins r : run c ins = ROk r ->
  map isnone (a_cells r) = map (fun col => any_none col || undefined_at (colf c ins) col) (in_cols ins).
Proof. intros H. apply run_ok in H. destruct H as (_ & _ & _ & ->). apply cw_mask_law. Qed.

(* a missing input cell always gives a missing result cell *)
Corollary missing_stays_missing c ins r i : run c ins = ROk r ->
  any_none (nth i (in_cols ins) []) = true -> nth i (a_cells r) None = None.
Proof. intros H A. apply run_ok in H. destruct H as (_ & _ & _ & ->). unfold cw.
  destruct (Nat.lt_ge_cases i (length (in_cols ins))) as [L|L].
  - rewrite (nth_indep _ None (cw_cell (colf c ins) [])) by (rewrite map_length; exact L).
    rewrite map_nth. fold (in_cols ins). generalize (cw_cell_mask (colf c ins) (nth i (in_cols ins) [])).
    rewrite A. simpl. destruct (cw_cell _ _); [discriminate | reflexivity].
  - apply nth_overflow. rewrite map_length. exact L. Qed.

(* commands whose operation is defined for all values: a result cell is missing iff an input cell is *)
Definition total_cmd (c : ecmd) : bool :=
  match c with
  | ADividedByB | WeightedMean _ | FuzzyWeightedUnion _ | Normalize _ _ | NormalizeZScore _ _ _ _ _ | CvtToFuzzyZScore _ _ _ => false
  | _ => true
  end.

Lemma validate_nonempty ins : validate_shapes ins = None -> ins <> [].
Proof. destruct ins; simpl; congruence. Qed.
Lemma orelse_none a b : orelse a b = None -> a = None /\ b = None.
Proof. destruct a; simpl; [discriminate | auto]. Qed.
Lemma single_inv ins : single ins = None -> exists a, ins = [a].
Proof. destruct ins as [|a [|b t]]; simpl; try discriminate. eauto. Qed.
Lemma pair_inv ins : pair_in ins = None -> exists a b, ins = [a; b].
Proof. destruct ins as [|a [|b [|c t]]]; simpl; try discriminate. eauto. Qed.
Lemma len1 {A} (l : list A) : length l = 1%nat -> exists x, l = [x].
Proof. destruct l as [|x [|y t]]; simpl; try discriminate. eauto. Qed.
Lemma len2 {A} (l : list A) : length l = 2%nat -> exists x y, l = [x; y].
Proof. destruct l as [|x [|y [|z t]]]; simpl; try discriminate. eauto. Qed.
Lemma qminl_some l : l <> [] -> qminl l <> None.
Proof. destruct l; [congruence|]. simpl. destruct (qminl l); discriminate. Qed.
Lemma qmaxl_some l : l <> [] -> qmaxl l <> None.
Proof. destruct l; [congruence|]. simpl. destruct (qmaxl l); discriminate. Qed.
Lemma insert_length x l : length (insert x l) = S (length l).
Proof. induction l as [|y t IH]; simpl; [reflexivity|]. destruct (Qle_bool x y); simpl; congruence. Qed.
Lemma sortq_length l : length (sortq l) = length l.
Proof. induction l as [|x t IH]; simpl; [reflexivity|]. rewrite insert_length. congruence. Qed.
Lemma insert_pt_nonempty p l : insert_pt p l <> [].
Proof. destruct l; simpl; [discriminate|]. destruct (pt_le p p0); discriminate. Qed.
Lemma sort_pts_nonempty l : l <> [] -> sort_pts l <> [].
Proof. destruct l; [congruence|]. intros _. simpl. apply insert_pt_nonempty. Qed.
Lemma interp_some pts x : pts <> [] -> interp pts x <> None.
Proof. destruct pts; [congruence|]. discriminate. Qed.
Lemma zipw_nonempty {A B C} (f : A -> B -> C) a b : a <> [] -> length a = length b -> zipw f a b <> [].
Proof. destruct a, b; simpl; try congruence; discriminate. Qed.
Lemma curve_checks_pts raws normals : curve_checks raws normals = None -> curve_pts raws normals <> [].
Proof. unfold curve_checks, curve_pts. destruct (Nat.eqb (length raws) (length normals)) eqn:E; simpl; [|discriminate].
  destruct (has_dupq raws); [discriminate|]. destruct raws as [|r rs]; [discriminate|]. intros _.
  apply sort_pts_nonempty. apply zipw_nonempty; [discriminate|]. apply Nat.eqb_eq. exact E. Qed.
Lemma ofz_some o : o <> None -> ofz o <> None.
Proof. destruct o; simpl; congruence. Qed.
Lemma lin_some x1 y1 x2 y2 x : Qeq_bool (x2 - x1) 0 = false -> lin x1 y1 x2 y2 x <> None.
Proof. intros H. unfold lin, divq. rewrite H. discriminate. Qed.

Ltac split_pre :=
  repeat match goal with H : orelse _ _ = None |- _ => apply orelse_none in H; destruct H end.
Ltac use_single Hl :=
  match goal with H : single _ = None |- _ =>
    apply single_inv in H; destruct H as [a0 ->]; simpl in Hl; apply len1 in Hl; destruct Hl as [x0 ->]; cbn [u1] end.

Lemma cz_pts_nonempty sigma mu zs normals :
  (if negb (Nat.eqb (length zs) (length normals)) then Some EMixedLengths
   else match zs with [] => Some EUnexpected | _ => None end) = None -> cz_pts sigma mu zs normals <> [].
Proof. intros H. unfold cz_pts. apply sort_pts_nonempty.
  destruct (Nat.eqb (length zs) (length normals)) eqn:E; simpl in *; [|discriminate]. destruct zs as [|z zs]; [discriminate|].
  apply zipw_nonempty; [discriminate|]. rewrite map_length. apply Nat.eqb_eq. exact E. Qed.
Lemma mtm_pts_nonempty iz normals vals : mtm_checks iz normals vals = None -> mtm_pts iz normals vals <> [].
Proof. unfold mtm_checks, mtm_pts. destruct (mtm_raws _ _ _) as [[r n]|]; [|discriminate]. apply curve_checks_pts. Qed.
Lemma nary_len {A} (vs : list A) ins : validate_shapes ins = None -> length vs = length ins -> vs <> [].
Proof. intros H L. apply validate_nonempty in H. destruct vs, ins; simpl in *; congruence. Qed.

Theorem total_defined c ins vs : total_cmd c = true -> pre c ins = None -> length vs = length ins -> colf c ins vs <> None.
Proof.
  destruct c; intros Hc; try discriminate Hc; clear Hc; unfold pre, colf; intros Hp Hl; split_pre; try use_single Hl; try discriminate.
  - (* AMinusB *) match goal with H : pair_in _ = None |- _ => apply pair_inv in H; destruct H as [a0 [b0 ->]] end.
    simpl in Hl. apply len2 in Hl. destruct Hl as [x0 [y0 ->]]. discriminate.
  - apply qminl_some. eapply nary_len; eauto.
  - apply qmaxl_some. eapply nary_len; eauto.
  - apply interp_some, curve_checks_pts. assumption.
  - apply interp_some, mtm_pts_nonempty. assumption.
  - apply interp_some, cz_pts_nonempty. assumption.
  - (* CvtToFuzzy *) destruct d; try discriminate;
    (destruct (ctf_thresholds _ _ _ _) as [[tv fv]|]; [|cbn [u1]; discriminate]; cbn [u1]; apply ofz_some, lin_some;
     match goal with H : (if Qeq_bool ?a ?b then _ else _) = None |- _ => destruct (Qeq_bool a b) eqn:E; [discriminate|] end;
     destruct (Qeq_bool (fv - tv) 0) eqn:E2; [|reflexivity]; apply Qeq_bool_eq in E2; apply Qeq_bool_neq in E; exfalso; apply E; lra).
  - apply ofz_some, interp_some, curve_checks_pts. assumption.
  - apply ofz_some, interp_some, mtm_pts_nonempty. assumption.
  - apply ofz_some, interp_some, cz_pts_nonempty. assumption.
  - (* FuzzySelectedUnion *) destruct (Z.ltb _ _); [discriminate|]. destruct truest; discriminate.
  - apply ofz_some, qmaxl_some. eapply nary_len; eauto.
  - apply ofz_some, qminl_some. eapply nary_len; eauto.
  - (* FuzzyXOr *) unfold xor_cell.
    assert (L : (2 <= length (rev (sortq vs)))%nat).
    { rewrite rev_length, sortq_length, Hl. destruct ins as [|a [|b t]]; simpl in *; try discriminate; lia. }
    destruct (rev (sortq vs)) as [|t1 [|t2 r]]; simpl in L; try lia. discriminate.
Qed.

Theorem total_mask_law c ins r : total_cmd c = true -> run c ins = ROk r ->
  map isnone (a_cells r) = map any_none (in_cols ins).
Proof. intros T H. rewrite (run_mask_law _ _ _ H). apply run_ok in H. destruct H as (Hp & _).
  apply map_ext_in. intros col Hc. unfold undefined_at. destruct (all_some col) as [vs|] eqn:E; [|apply orb_false_r].
  assert (D : colf c ins vs <> None).
  { apply total_defined; auto. rewrite (all_some_length _ _ E). unfold in_cols in Hc. rewrite (cols_of_col_length _ _ Hc). apply map_length. }
  destruct (colf c ins vs); [apply orb_false_r | congruence]. Qed.

(* division: the only undefined place is a zero divisor *)
Lemma divq_none a b : divq a b = None <-> b == 0.
Proof. unfold divq. destruct (Qeq_bool b 0) eqn:E; [apply Qeq_bool_eq in E | apply Qeq_bool_neq in E]; split; auto; try discriminate; tauto. Qed.
Theorem div_undefined ins a b : colf ADividedByB ins [a; b] = None <-> b == 0.
Proof. apply divq_none. Qed.
Theorem wmean_undefined ws ins vs : colf (WeightedMean ws) ins vs = None <-> qsum (wvals ws) == 0.
Proof. apply divq_none. Qed.
