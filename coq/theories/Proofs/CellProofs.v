(* Generic facts about the mask-respecting combinators and the range theorem (C04), the mask law (C03)
   and shape preservation (C05) for all 31 command models. *)
From Coq Require Import QArith Qminmax Qabs List Bool ZArith Lia Lqa.
From MP Require Import Model.Cells.
Import ListNotations.
Open Scope Q_scope.

(* ---------- clamp ---------- *)
Lemma clamp2_range lo hi x : lo <= hi -> lo <= clamp2 lo hi x <= hi.
Proof. intros H. unfold clamp2. destruct (Qlt_le_dec hi x) as [A|A].
  - destruct (Qlt_le_dec hi lo) as [B|B]; lra.
  - destruct (Qlt_le_dec x lo) as [B|B]; lra. Qed.
Lemma fz_range x : -1 <= fz x <= 1.
Proof. apply clamp2_range. unfold Qle; simpl; lia. Qed.
Lemma clamp2_id lo hi x : lo <= x <= hi -> clamp2 lo hi x = x.
Proof. intros [A B]. unfold clamp2. destruct (Qlt_le_dec hi x) as [C|C]; [lra|].
  destruct (Qlt_le_dec x lo) as [D|D]; [lra | reflexivity]. Qed.
Lemma fz_id x : -1 <= x <= 1 -> fz x = x.
Proof. apply clamp2_id. Qed.

(* ---------- predicates on results ---------- *)
Definition cellP (R : Q -> Prop) (c : cell) : Prop := match c with Some q => R q | None => True end.
Definition resP (R : Q -> Prop) (r : res arr) : Prop :=
  match r with ROk a => Forall (cellP R) (a_cells a) | RErr _ => True end.

Lemma cw1_P (R : Q -> Prop) f a : (forall x q, f x = Some q -> R q) -> Forall (cellP R) (cw1 f a).
Proof. intros H. unfold cw1. apply Forall_forall. intros c Hc. apply in_map_iff in Hc. destruct Hc as [c0 [<- _]].
  destruct c0 as [x|]; simpl; [|exact I]. destruct (f x) as [q|] eqn:E; simpl; [eapply H; eauto | exact I]. Qed.
Lemma cw_P (R : Q -> Prop) f cols : (forall vs q, f vs = Some q -> R q) -> Forall (cellP R) (cw f cols).
Proof. intros H. unfold cw. apply Forall_forall. intros c Hc. apply in_map_iff in Hc. destruct Hc as [col [<- _]].
  destruct (all_some col) as [vs|]; simpl; [|exact I]. destruct (f vs) as [q|] eqn:E; simpl; [eapply H; eauto | exact I]. Qed.
Lemma unary_P (R : Q -> Prop) dt f a : (forall x q, f x = Some q -> R q) -> resP R (ROk (unary dt f a)).
Proof. intros H. simpl. apply cw1_P. exact H. Qed.
Lemma nary_P (R : Q -> Prop) dt f ins : (forall vs q, f vs = Some q -> R q) -> resP R (nary dt f ins).
Proof. intros H. unfold nary. destruct (validate_shapes ins); simpl; [exact I|]. apply cw_P. exact H. Qed.
Lemma fzres_P r : resP (fun q => -1 <= q <= 1) (fzres r).
Proof. destruct r as [a|e]; simpl; [|exact I]. apply cw1_P. intros x q H. inversion H; subst. apply fz_range. Qed.
Lemma weighted_P (R : Q -> Prop) ins ws k : resP R k -> resP R (weighted ins ws k).
Proof. intros H. unfold weighted. destruct (negb _); [exact I | exact H]. Qed.
Lemma one_P (R : Q -> Prop) ins k : (forall a, resP R (k a)) -> resP R (one ins k).
Proof. intros H. unfold one. destruct ins as [|a [|b t]]; simpl; try exact I. apply H. Qed.

(* ---------- C04 ---------- *)
Definition fuzzy_cmd (c : ecmd) : bool :=
  match c with
  | CvtToFuzzy _ _ _ | CvtToFuzzyZScore _ _ _ | CvtToFuzzyCat _ _ _ | CvtToFuzzyCurve _ _ | CvtToFuzzyMeanToMid _ _
  | CvtToFuzzyCurveZScore _ _ _ | CvtToBinary _ _ | FuzzyUnion | FuzzyWeightedUnion _ | FuzzySelectedUnion _ _
  | FuzzyOr | FuzzyAnd | FuzzyXOr | FuzzyNot => true
  | _ => false
  end.
Definition fuzzy_names : list (bool * bool) := [].

Ltac some_fz := let H := fresh in intros ? ? H; first [inversion H; subst; apply fz_range | idtac].

Theorem fuzzy_range c ins : fuzzy_cmd c = true -> resP (fun q => -1 <= q <= 1) (run c ins).
Proof.
  destruct c; simpl; try discriminate; intros _.
  - (* CvtToFuzzy *) apply one_P. intros a. unfold cvt_to_fuzzy. destruct d; try exact I;
    (destruct (qminl (somes (a_cells a))); [|exact I]; destruct (qmaxl (somes (a_cells a))); [|exact I];
     match goal with |- context [Qeq_bool ?x ?y] => destruct (Qeq_bool x y) end; [exact I|];
     apply unary_P; intros xx qq H; match type of H with match ?l with _ => _ end = _ => destruct l end; inversion H; subst; apply fz_range).
  - apply one_P. intros a. apply fzres_P.
  - apply one_P. intros a. apply fzres_P.
  - apply one_P. intros a. apply fzres_P.
  - apply one_P. intros a. apply fzres_P.
  - apply one_P. intros a. apply fzres_P.
  - apply one_P. intros a. apply fzres_P.
  - (* FuzzyUnion *) apply nary_P. some_fz.
  - (* FuzzyWeightedUnion *) apply weighted_P, nary_P. intros vs q H. destruct (divq _ _); inversion H; subst. apply fz_range.
  - (* FuzzySelectedUnion *) destruct (validate_shapes ins); [exact I|]. destruct (Z.ltb _ _); [exact I|].
    destruct truest as [tr|]; [|exact I]. destruct (Z.ltb k 1); [exact I|]. apply nary_P. unfold sel_union. some_fz.
  - (* FuzzyOr *) apply nary_P. intros vs q H. destruct (qmaxl vs); inversion H; subst. apply fz_range.
  - (* FuzzyAnd *) apply nary_P. intros vs q H. destruct (qminl vs); inversion H; subst. apply fz_range.
  - (* FuzzyXOr *) destruct (validate_shapes ins); [exact I|]. destruct ins as [|a [|b t]]; try exact I.
    + apply nary_P. intros vs q H. unfold xor_cell in H. destruct (rev (sortq vs)) as [|t1 [|t2 r]]; inversion H; subst. apply fz_range.
    + apply nary_P. intros vs q H. unfold xor_cell in H. destruct (rev (sortq vs)) as [|t1 [|t2 r]]; inversion H; subst. apply fz_range.
  - (* FuzzyNot *) apply one_P. intros a. apply unary_P. some_fz.
Qed.

(* ---------- C03: the mask law ---------- *)
Definition isnone (c : cell) : bool := match c with None => true | Some _ => false end.
Definition any_none (col : list cell) : bool := existsb isnone col.

Lemma all_some_none col : all_some col = None <-> any_none col = true.
Proof. induction col as [|c col IH]; simpl; [split; discriminate|]. destruct c as [q|]; simpl.
  - destruct (all_some col); [split; [discriminate | intros H; apply IH in H; discriminate] | tauto].
  - tauto. Qed.

(* a result cell is missing exactly when some input cell of its column is missing or f is undefined there *)
Theorem cw_mask_law f cols :
  map isnone (cw f cols) =
  map (fun col => any_none col || match all_some col with Some vs => isnone (f vs) | None => false end) cols.
Proof. unfold cw. rewrite map_map. apply map_ext. intros col. destruct (all_some col) as [vs|] eqn:E.
  - assert (any_none col = false). { destruct (any_none col) eqn:A; [|reflexivity]. apply all_some_none in A. congruence. }
    rewrite H. reflexivity.
  - apply all_some_none in E. rewrite E. reflexivity. Qed.

(* for operations defined everywhere: missing iff some input cell is missing *)
Corollary cw_mask_total f cols : (forall vs, f vs <> None) -> map isnone (cw f cols) = map any_none cols.
Proof. intros T. rewrite cw_mask_law. apply map_ext. intros col. destruct (all_some col) as [vs|]; [|apply orb_false_r].
  specialize (T vs). destruct (f vs); [apply orb_false_r | congruence]. Qed.
Lemma cw1_mask_law f a : map isnone (cw1 f a) = map (fun c => match c with Some x => isnone (f x) | None => true end) a.
Proof. unfold cw1. rewrite map_map. apply map_ext. intros [x|]; reflexivity. Qed.
Corollary cw1_mask_total f a : (forall x, f x <> None) -> map isnone (cw1 f a) = map isnone a.
Proof. intros T. rewrite cw1_mask_law. apply map_ext. intros [x|]; simpl; [|reflexivity]. specialize (T x). destruct (f x); [reflexivity | congruence]. Qed.

(* division: undefined exactly on a zero divisor *)
Lemma c_div_undefined a b : c_div [a; b] = None <-> b == 0.
Proof. unfold c_div. destruct (Qeq_bool b 0) eqn:E; [apply Qeq_bool_eq in E | apply Qeq_bool_neq in E]; split; auto; try discriminate; tauto. Qed.

(* ---------- C05: shape and length ---------- *)
Lemma cw_length f cols : length (cw f cols) = length cols. Proof. apply map_length. Qed.
Lemma cw1_length f a : length (cw1 f a) = length a. Proof. apply map_length. Qed.

Definition shapeP (sh : list nat) (r : res arr) : Prop := match r with ROk a => a_shape a = sh | RErr _ => True end.
Lemma nary_shape dt f ins : shapeP (first_shape ins) (nary dt f ins).
Proof. unfold nary. destruct (validate_shapes ins); simpl; auto. Qed.
Lemma fzres_shape sh r : shapeP sh r -> shapeP sh (fzres r).
Proof. destruct r; simpl; auto. Qed.
Lemma one_shape ins k : (forall a, shapeP (a_shape a) (k a)) -> shapeP (first_shape ins) (one ins k).
Proof. intros H. unfold one. destruct ins as [|a [|b t]]; simpl; auto. apply H. Qed.
Lemma curve_shape r n a : shapeP (a_shape a) (curve r n a).
Proof. unfold curve. destruct (curve_checks r n); simpl; auto. Qed.
Lemma cat_shape r n d a : shapeP (a_shape a) (cat r n d a).
Proof. unfold cat. destruct (negb _); simpl; auto. destruct (has_dupq r); simpl; auto. Qed.
Lemma mtm_shape iz n a : shapeP (a_shape a) (mean_to_mid iz n a).
Proof. unfold mean_to_mid. destruct (qminl _); simpl; auto. destruct (qmaxl _); simpl; auto.
  destruct (if iz then _ else _) as [|u0 us]; simpl; auto.
  destruct (filter (fun x => negb _) (u0 :: us)) as [|a0 ab]; simpl; auto.
  destruct (filter (fun x => Qle_bool _ _) (u0 :: us)) as [|b0 bl]; simpl; auto.
  destruct (negb (Nat.eqb (length n) 5)); simpl; auto.
  repeat match goal with |- context [if ?b then _ else _] => destruct b end; apply curve_shape. Qed.
Lemma cz_shape s z n a : shapeP (a_shape a) (curve_zscore s z n a).
Proof. unfold curve_zscore. destruct (negb _); simpl; auto. destruct z; simpl; auto. Qed.

Theorem run_shape c ins : shapeP (first_shape ins) (run c ins).
Proof.
  destruct c; simpl; try apply nary_shape; try (apply one_shape; intros a; simpl; auto);
  try (apply fzres_shape); auto using curve_shape, cat_shape, mtm_shape, cz_shape.
  - destruct ins as [|a [|b [|c t]]]; simpl; auto. apply nary_shape.
  - unfold weighted. destruct (negb _); simpl; auto. apply nary_shape.
  - destruct ins as [|a [|b [|c t]]]; simpl; auto. apply nary_shape.
  - unfold weighted. destruct (negb _); simpl; auto. apply nary_shape.
  - destruct (qminl _); simpl; auto. destruct (qmaxl _); simpl; auto.
  - unfold cvt_to_fuzzy. destruct d; simpl; auto; destruct (qminl _); simpl; auto; destruct (qmaxl _); simpl; auto;
    match goal with |- context [Qeq_bool ?a ?b] => destruct (Qeq_bool a b) end; simpl; auto.
  - unfold cvt_to_binary. destruct d; simpl; auto.
  - unfold weighted. destruct (negb _); simpl; auto. apply nary_shape.
  - destruct (validate_shapes ins) eqn:V; simpl; auto. destruct (Z.ltb _ _); simpl; auto. destruct truest; simpl; auto.
    destruct (Z.ltb k 1); simpl; auto. apply nary_shape.
  - destruct (validate_shapes ins) eqn:V; simpl; auto. destruct ins as [|a [|b t]]; simpl; auto; apply nary_shape.
  - unfold cvt_from_fuzzy. destruct (Qeq_bool t f); simpl; auto.
Qed.
