(* C20: parameter cleaning is typed, never lets a raw exception out, and is idempotent. *)
From Coq Require Import String List Bool ZArith QArith Ascii Lia.
From MP Require Import Base.Sig Model.Params.
Import ListNotations.
Open Scope string_scope.

(* the handlers and guards that the theorems need (decided on the regenerated facts by vm_compute) *)
Definition good_facts (F : pfacts) : bool :=
  mem_str "ValueError" (number_catch_int F) && mem_str "TypeError" (number_catch_int F) &&
  mem_str "ValueError" (number_catch_float F) && mem_str "TypeError" (number_catch_float F) &&
  mem_str "TypeError" (datatype_catch F) && datatype_membership_guarded F && path_requires_text F &&
  negb (mem_str "str" (string_rejects F)).

Fixpoint supported (p : pkind) : bool :=
  match p with
  | PUnknown _ => false
  | PList i => supported i
  | PResult (Some o) _ => supported o
  | _ => true
  end.

Definition is_escape (r : cres) : bool := match r with CErr (EEscape _) => true | _ => false end.

Section P.
Variable F : pfacts.
Variable acc : list (string * string * bool).
Variable E : env.
Hypothesis GF : good_facts F = true.
Notation clean := (clean F acc E).

Lemma gf_parts :
  mem_str "ValueError" (number_catch_int F) = true /\ mem_str "TypeError" (number_catch_int F) = true /\
  mem_str "ValueError" (number_catch_float F) = true /\ mem_str "TypeError" (number_catch_float F) = true /\
  mem_str "TypeError" (datatype_catch F) = true /\ datatype_membership_guarded F = true /\ path_requires_text F = true /\
  mem_str "str" (string_rejects F) = false.
Proof. pose proof GF as G. unfold good_facts in G.
  apply andb_true_iff in G. destruct G as [G H8]. apply andb_true_iff in G. destruct G as [G H7].
  apply andb_true_iff in G. destruct G as [G H6]. apply andb_true_iff in G. destruct G as [G H5].
  apply andb_true_iff in G. destruct G as [G H4]. apply andb_true_iff in G. destruct G as [G H3].
  apply andb_true_iff in G. destruct G as [H1 H2]. apply negb_true_iff in H8. tauto. Qed.

Lemma py_int_exn v ex : py_int v = inr ex -> ex = "ValueError" \/ ex = "TypeError" \/ (ex = "OverflowError" /\ is_number v = true).
Proof. destruct v as [z|f t|b|s i fl|l|kv|n|t| | |]; simpl; try (intros H; inversion H; auto; fail).
  - destruct f; intros H; inversion H; auto.
  - destruct i; intros H; inversion H; auto. Qed.
Lemma py_float_exn v ex : py_float v = inr ex -> ex = "ValueError" \/ ex = "TypeError".
Proof. destruct v as [z|f t|b|s i fl|l|kv|n|t| | |]; simpl; try (intros H; inversion H; auto; fail).
  destruct fl; intros H; inversion H; auto. Qed.

Lemma number_no_escape v : is_escape (clean_number F v) = false.
Proof. destruct gf_parts as (A & B & C & D & _). unfold clean_number. destruct (is_number v) eqn:N; [reflexivity|].
  destruct (py_int v) as [z|ex] eqn:I; [reflexivity|]. destruct (py_int_exn _ _ I) as [->|[->|[-> N']]]; try congruence.
  - rewrite A. destruct (py_float v) as [f|ex2] eqn:Fl; [reflexivity|]. destruct (py_float_exn _ _ Fl) as [->| ->]; rewrite ?C, ?D; reflexivity.
  - rewrite B. destruct (py_float v) as [f|ex2] eqn:Fl; [reflexivity|]. destruct (py_float_exn _ _ Fl) as [->| ->]; rewrite ?C, ?D; reflexivity. Qed.
Lemma boolean_no_escape v : is_escape (clean_boolean v) = false.
Proof. destruct v as [z|f t|b|s i fl|l|kv|n|t| | |]; simpl; try reflexivity.
  destruct (String.eqb (lower s) "true"); [reflexivity|]. destruct (String.eqb (lower s) "false"); [reflexivity|]. destruct i; reflexivity. Qed.
Lemma string_no_escape v : is_escape (clean_string F v) = false.
Proof. unfold clean_string. destruct (mem_str _ _); [reflexivity|]. destruct (text_of v); reflexivity. Qed.
Lemma path_no_escape me v : is_escape (clean_path F E me v) = false.
Proof. destruct gf_parts as (_ & _ & _ & _ & _ & _ & P & _). unfold clean_path. destruct v; rewrite ?P; try reflexivity.
  destruct (starts_with_slash s); [|destruct (wd E); [|reflexivity]]; destruct (me && negb _); reflexivity. Qed.
Lemma datatype_no_escape keys v : is_escape (clean_datatype F keys v) = false.
Proof. destruct gf_parts as (_ & _ & _ & _ & T & G & _). unfold clean_datatype. rewrite T, G.
  destruct v; simpl; try reflexivity.
  - destruct (assoc_str keys s); reflexivity.
  - destruct (mem_str t (map snd keys)); reflexivity. Qed.
Lemma tuple_no_escape v : is_escape (clean_tuple v) = false.
Proof. destruct v as [z|f t|b|s i fl|l|kv|n|t| | |]; simpl; try reflexivity. destruct l; reflexivity. Qed.
Lemma data_no_escape v : is_escape (clean_data v) = false.
Proof. destruct v; reflexivity. Qed.
Lemma clean_list_no_escape f l e : (forall x, is_escape (f x) = false) -> clean_list f l = inr e -> is_escape (CErr e) = false.
Proof. intros H. revert e. induction l as [|x t IH]; simpl; intros e; [discriminate|].
  destruct (f x) as [v|e0] eqn:Fx.
  - destruct (clean_list f t) as [vs|e1]; [discriminate|]. intros K; inversion K; subst. apply IH. reflexivity.
  - intros K; inversion K; subst. specialize (H x). rewrite Fx in H. exact H. Qed.

(* no raw Python exception leaves clean(), for every supported parameter declaration and every raw value *)
Theorem no_escape : forall p v, supported p = true -> is_escape (clean p v) = false.
Proof.
  fix IH 1. intros p v S. destruct p as [| | | |me|out fz|item| | |keys|c]; simpl in *.
  - reflexivity.
  - apply string_no_escape.
  - apply number_no_escape.
  - apply boolean_no_escape.
  - apply path_no_escape.
  - (* result *)
    destruct (match v with RStr s _ _ => _ | RCmd n => _ | _ => _ end) as [n|e] eqn:R.
    + destruct (find_cmd (cmds E) n) as [ci|]; [|reflexivity].
      destruct (match fz with Some true => _ | _ => _ end); [reflexivity|].
      destruct (match fz with Some false => _ | _ => _ end); [reflexivity|].
      destruct out as [o|]; [|reflexivity].
      destruct (ci_finished ci) as [r|].
      * pose proof (IH o r S) as H. destruct (clean o r) as [w|e]; [reflexivity | exact H].
      * destruct (ci_output ci); [destruct (accepts _ _ _)|]; reflexivity.
    + destruct v; try (inversion R; subst; reflexivity). destruct (find_cmd (cmds E) s); inversion R; subst; reflexivity.
  - (* list *)
    destruct v; try reflexivity. destruct (clean_list (clean item) l) as [vs|e] eqn:L; [reflexivity|].
    eapply clean_list_no_escape; [|exact L]. intros x. apply IH. exact S.
  - apply tuple_no_escape.
  - apply data_no_escape.
  - apply datatype_no_escape.
  - discriminate.
Qed.

(* ---------- typed ---------- *)
Definition is_text (v : raw) : bool := match v with RStr _ _ _ => true | _ => false end.
Fixpoint has_type (p : pkind) (c : raw) : bool :=
  match p with
  | PAny => true
  | PString => is_text c
  | PNumber => is_number c
  | PBoolean => match c with RBool _ => true | _ => false end
  | PPath me => match c with RStr s _ _ => starts_with_slash s && (negb me || path_exists E s) | _ => false end
  | PResult _ _ => match c with RCmd n => if find_cmd (cmds E) n then true else false | _ => false end
  | PList item => match c with RList l => forallb (has_type item) l | _ => false end
  | PTuple => match c with RDict kv => forallb (fun kv => is_text (snd kv)) kv | _ => false end
  | PData => match c with RData => true | _ => false end
  | PDataType keys => match c with RType t => mem_str t (map snd keys) | _ => false end
  | PUnknown _ => false
  end.
Hypothesis WD : forall d, wd E = Some d -> starts_with_slash d = true.     (* the working directory, when set, is absolute *)

Lemma path_join_abs d s : starts_with_slash d = true -> starts_with_slash (path_join d s) = true.
Proof. unfold path_join. destruct d as [|c d']; [discriminate|]. intros H.
  destruct (ends_with_slash (String c d') || String.eqb (String c d') ""); simpl; exact H. Qed.
Lemma clean_list_typed f P l vs : (forall x v, f x = COk v -> P v = true) -> clean_list f l = inl vs -> forallb P vs = true.
Proof. intros H. revert vs. induction l as [|x t IH]; simpl; intros vs K; [inversion K; reflexivity|].
  destruct (f x) as [v|e] eqn:Fx; [|discriminate]. destruct (clean_list f t) as [ws|e]; [|discriminate]. inversion K; subst. simpl.
  rewrite (H x v Fx), (IH ws eq_refl). reflexivity. Qed.

Theorem typed : forall p v c, clean p v = COk c -> has_type p c = true.
Proof.
  fix IH 1. intros p v c H. destruct p as [| | | |me|out fz|item| | |keys|cls]; simpl in *.
  - reflexivity.
  - unfold clean_string in H. destruct (mem_str _ _); [discriminate|]. destruct (text_of v); inversion H; reflexivity.
  - unfold clean_number in H. destruct (is_number v) eqn:N; [inversion H; subst; exact N|].
    destruct (py_int v); [inversion H; reflexivity|]. destruct (mem_str _ _); [|discriminate].
    destruct (py_float v); [inversion H; reflexivity|]. destruct (mem_str _ _); discriminate.
  - destruct v as [z|f t|b|s i fl|l|kv|n|t| | |]; simpl in H; try discriminate; try (inversion H; reflexivity).
    destruct (String.eqb (lower s) "true"); [inversion H; reflexivity|]. destruct (String.eqb (lower s) "false"); [inversion H; reflexivity|].
    destruct i; inversion H; reflexivity.
  - unfold clean_path in H. destruct v as [z|f t|b|s i fl|l|kv|n|t| | |]; try (destruct (path_requires_text F); discriminate).
    destruct (starts_with_slash s) eqn:A.
    + destruct (me && negb (path_exists E s)) eqn:X; [discriminate|]. inversion H; subst. rewrite A. simpl.
      destruct me; simpl in *; [rewrite negb_false_iff in X; exact X | reflexivity].
    + destruct (wd E) as [d|] eqn:W; [|discriminate]. destruct (me && negb (path_exists E (path_join d s))) eqn:X; [discriminate|].
      inversion H; subst. rewrite (path_join_abs d s (WD d eq_refl)). simpl.
      destruct me; simpl in *; [rewrite negb_false_iff in X; exact X | reflexivity].
  - destruct (match v with RStr s _ _ => _ | RCmd n => _ | _ => _ end) as [n|e] eqn:R; [|discriminate].
    destruct (find_cmd (cmds E) n) as [ci|] eqn:Fc; [|discriminate].
    destruct (match fz with Some true => _ | _ => _ end); [discriminate|].
    destruct (match fz with Some false => _ | _ => _ end); [discriminate|].
    assert (K : c = RCmd n).
    { destruct out as [o|]; [|inversion H; reflexivity]. destruct (ci_finished ci) as [r|].
      - destruct (clean o r); inversion H; reflexivity.
      - destruct (ci_output ci); [destruct (accepts _ _ _)|]; inversion H; reflexivity. }
    subst c. rewrite Fc. reflexivity.
  - destruct v; try discriminate; [|inversion H; reflexivity]. destruct (clean_list (clean item) l) as [vs|e] eqn:L; [|discriminate]. inversion H; subst.
    eapply clean_list_typed; [|exact L]. intros x w Hx. apply (IH item x w Hx).
  - destruct v as [z|f t|b|s i fl|l|kv|n|t| | |]; simpl in H; try discriminate.
    + destruct l; inversion H; reflexivity.
    + inversion H; subst. apply forallb_forall. intros [k w] Hin. apply in_map_iff in Hin. destruct Hin as [[k0 w0] [Eq _]].
      inversion Eq; subst. simpl. destruct (text_of w0); reflexivity.
  - destruct v; simpl in H; try discriminate. inversion H; reflexivity.
  - unfold clean_datatype in H. destruct v as [z|f t|b|s i fl|l|kv|n|t| | |]; simpl in H;
      try (destruct (mem_str "TypeError" _ && _); discriminate); try discriminate.
    + destruct (assoc_str keys s) as [t|] eqn:A; [|discriminate]. inversion H; subst.
      clear - A. induction keys as [|[k v] ks IHk]; simpl in *; [discriminate|]. destruct (String.eqb k s).
      * inversion A; subst. rewrite String.eqb_refl. reflexivity.
      * rewrite (IHk A). destruct (String.eqb t v); reflexivity.
    + destruct (mem_str t (map snd keys)) eqn:M; [|discriminate]. inversion H; subst. exact M.
  - discriminate.
Qed.

(* integers stay integers and decimals decimals; numeric text becomes the number Python reads in it *)
Theorem number_kinds v :
  match v with
  | RInt _ | RFloat _ _ | RBool _ => clean_number F v = COk v
  | RStr _ (Some z) _ => clean_number F v = COk (RInt z)
  | RStr _ None (Some f) => clean_number F v = COk (RFloat f "")
  | _ => clean_number F v = CErr (EParameterNotValid "Number")
  end.
Proof. destruct gf_parts as (A & B & C & D & _). destruct v as [z|f t|b|s i fl|l|kv|n|t| | |]; unfold clean_number; simpl; try reflexivity;
  rewrite ?A, ?B, ?C, ?D; try reflexivity. destruct i; [reflexivity|]. rewrite A. destruct fl; [reflexivity|]. rewrite C. reflexivity. Qed.

(* ---------- idempotence: cleaning a cleaned value returns it unchanged ---------- *)
Lemma clean_list_idem f l vs : (forall x v, f x = COk v -> f v = COk v) -> clean_list f l = inl vs -> clean_list f vs = inl vs.
Proof. intros H. revert vs. induction l as [|x t IH]; simpl; intros vs K; [inversion K; reflexivity|].
  destruct (f x) as [v|e] eqn:Fx; [|discriminate]. destruct (clean_list f t) as [ws|e]; [|discriminate]. inversion K; subst. simpl.
  rewrite (H x v Fx), (IH ws eq_refl). reflexivity. Qed.

Theorem idempotent : forall p v c, supported p = true -> clean p v = COk c -> clean p c = COk c.
Proof.
  destruct gf_parts as (_ & _ & _ & _ & _ & _ & _ & NS).
  fix IH 1. intros p v c S H. destruct p as [| | | |me|out fz|item| | |keys|cls]; simpl in *.
  - inversion H; reflexivity.
  - unfold clean_string in *. destruct (mem_str (pytype v) _); [discriminate|].
    assert (exists t, c = RStr t None None) as [t ->] by (destruct (text_of v); inversion H; eauto).
    simpl. rewrite NS. reflexivity.
  - pose proof (typed PNumber v c H) as T. simpl in T. unfold clean_number. rewrite T. reflexivity.
  - pose proof (typed PBoolean v c H) as T. simpl in T. destruct c; try discriminate. reflexivity.
  - pose proof (typed (PPath me) v c H) as T. simpl in T. destruct c as [| | |s i fl| | | | | | |]; try discriminate.
    apply andb_true_iff in T. destruct T as [A X]. unfold clean_path. rewrite A.
    replace (me && negb (path_exists E s)) with false; [reflexivity|]. destruct me; simpl in *; [rewrite X|]; reflexivity.
  - (* result: the same checks on the same command *)
    destruct (match v with RStr s _ _ => _ | RCmd n => _ | _ => _ end) as [n|e] eqn:R; [|discriminate].
    destruct (find_cmd (cmds E) n) as [ci|] eqn:Fc; [|discriminate].
    assert (K : c = RCmd n).
    { destruct fz as [[|]|]; destruct (ci_fuzzy ci); simpl in H; try discriminate;
      (destruct out as [o|]; [|inversion H; reflexivity]; destruct (ci_finished ci) as [r|];
       [destruct (clean o r); inversion H; reflexivity | destruct (ci_output ci); [destruct (accepts _ _ _)|]; inversion H; reflexivity]). }
    subst c. rewrite Fc. exact H.
  - destruct v; try discriminate; [|inversion H; reflexivity]. destruct (clean_list (clean item) l) as [vs|e] eqn:L; [|discriminate]. inversion H; subst.
    rewrite (clean_list_idem (clean item) l vs); [reflexivity | | exact L]. intros x w Hx. apply (IH item x w S Hx).
  - destruct v as [z|f t|b|s i fl|l|kv|n|t| | |]; simpl in H; try discriminate.
    + destruct l; inversion H; reflexivity.
    + inversion H; subst. simpl. f_equal. f_equal. rewrite map_map. apply map_ext. intros [k w]. simpl. destruct (text_of w); reflexivity.
  - destruct v; simpl in H; try discriminate. inversion H; reflexivity.
  - pose proof (typed (PDataType keys) v c H) as T. simpl in T. destruct c; try discriminate. unfold clean_datatype. rewrite T. reflexivity.
  - discriminate.
Qed.
End P.
