(* C17: what CSV reading returns and what writing produces. *)
From Coq Require Import String List Bool ZArith QArith Arith Lia.
From MP Require Import Base.Sig Model.Params Model.Csv.
Import ListNotations.
Open Scope string_scope.
Open Scope nat_scope.

Definition nonblank (r : crow) : bool := match r with [] => false | _ => true end.

(* the values read are those of the column, in row order, blank lines skipped *)
Lemma column_values idx rows i vs : column idx rows i = inl vs ->
  map Some vs = map (fun r => match nth_error r idx with Some c => c_float c | None => None end) (filter nonblank rows).
Proof. revert i vs. induction rows as [|r rest IH]; intros i vs H; simpl in *.
  - inversion H. reflexivity.
  - destruct r as [|c0 r']; [simpl; eapply IH; eauto|]. cbn [nonblank filter map].
    destruct (nth_error (c0 :: r') idx) as [c|] eqn:N; [|discriminate]. destruct (c_float c) as [f|] eqn:Fc; [|discriminate].
    destruct (column idx rest (S i)) as [ws|] eqn:C; [|discriminate]. inversion H; subst. simpl. f_equal. eapply IH; eauto. Qed.
Lemma column_length idx rows i vs : column idx rows i = inl vs -> length vs = length (filter nonblank rows).
Proof. intros H. apply column_values in H. apply (f_equal (@length _)) in H. rewrite !map_length in H. exact H. Qed.

(* the result depends on the chosen column only: tables that agree on which lines are blank and on that column read alike *)
Lemma column_only idx rows rows' i :
  Forall2 (fun r r' => nonblank r = nonblank r' /\ nth_error r idx = nth_error r' idx) rows rows' ->
  column idx rows i = column idx rows' i.
Proof. intros H. revert i. induction H as [|r r' t t' [B N] _ IH]; intros i; [reflexivity|].
  destruct r as [|c0 r0], r' as [|c0' r0']; simpl in B; try discriminate; [simpl; apply IH|].
  cbn [column]. rewrite N. destruct (nth_error (c0' :: r0') idx) as [c|]; [|reflexivity]. destruct (c_float c); [|reflexivity]. rewrite IH. reflexivity. Qed.

(* a non-numeric cell is reported with its file line: header = line 1, data row k (counting blank lines) = line k + 2 *)
Lemma column_bad_line idx rows i l : column idx rows i = inr (CBadValue l) ->
  exists k r c, nth_error rows k = Some r /\ l = i + k + 2 /\ nth_error r idx = Some c /\ c_float c = None /\
    forall j r', j < k -> nth_error rows j = Some r' -> r' = [] \/ exists c', nth_error r' idx = Some c' /\ c_float c' <> None.
Proof. revert i. induction rows as [|r rest IH]; intros i H; simpl in H; [discriminate|].
  destruct r as [|c0 r'].
  - destruct (IH _ H) as (k & r & c & A & B & C & D & E). exists (S k), r, c.
    split; [exact A|]. split; [lia|]. split; [exact C|]. split; [exact D|].
    intros j r0 Hj Nj. destruct j; simpl in Nj; [inversion Nj; auto | apply (E j r0); [lia | exact Nj]].
  - destruct (nth_error (c0 :: r') idx) as [c|] eqn:N; [|discriminate]. destruct (c_float c) as [f|] eqn:Fc.
    + destruct (column idx rest (S i)) as [ws|e] eqn:Cl; [discriminate|]. inversion H; subst e.
      destruct (IH _ Cl) as (k & r & c1 & A & B & C & D & E). exists (S k), r, c1.
      split; [exact A|]. split; [lia|]. split; [exact C|]. split; [exact D|].
      intros j r0 Hj Nj. destruct j; simpl in Nj; [inversion Nj; subst; right; exists c; split; [exact N | congruence] | apply (E j r0); [lia | exact Nj]].
    + inversion H; subst. exists 0, (c0 :: r'), c.
      split; [reflexivity|]. split; [lia|]. split; [exact N|]. split; [exact Fc|]. intros j r0 Hj; lia. Qed.

(* exactly the cells equal to the declared missing value are missing *)
Lemma convert_float_mask missing v : 
  convert TFloat missing v = Some (match missing with Some m => if feq v m then OMissing else OFloat v | None => OFloat v end).
Proof. reflexivity. Qed.
Lemma convert_all_length t m vs cs : convert_all t m vs = Some cs -> length cs = length vs.
Proof. revert cs. induction vs as [|v r IH]; simpl; intros cs H; [inversion H; reflexivity|].
  destruct (convert t m v); [|discriminate]. destruct (convert_all t m r) as [cs'|]; [|discriminate]. inversion H; subst. simpl. f_equal. auto. Qed.
Lemma convert_all_nth t m vs cs k v : convert_all t m vs = Some cs -> nth_error vs k = Some v ->
  exists c, nth_error cs k = Some c /\ convert t m v = Some c.
Proof. revert cs k. induction vs as [|v0 r IH]; simpl; intros cs k H N; [destruct k; discriminate|].
  destruct (convert t m v0) as [c0|] eqn:C0; [|discriminate]. destruct (convert_all t m r) as [cs'|] eqn:Cr; [|discriminate]. inversion H; subst.
  destruct k; simpl in *; [inversion N; subst; eauto | eapply IH; eauto]. Qed.

(* ---------- writing ---------- *)
Lemma transpose_length n cols : length (transpose_cols n cols) = n.
Proof. induction n; simpl; [reflexivity|]. rewrite app_length. simpl. lia. Qed.
Lemma transpose_nth n cols k : k < n ->
  nth_error (transpose_cols n cols) k = Some (map (fun c => match nth_error c k with Some w => cell_text w | None => "" end) cols).
Proof. induction n as [|n IH]; intros H; [lia|]. simpl. destruct (Nat.eq_dec k n) as [->|Ne].
  - rewrite nth_error_app2 by (rewrite transpose_length; lia). rewrite transpose_length, Nat.sub_diag. reflexivity.
  - rewrite nth_error_app1 by (rewrite transpose_length; lia). apply IH. lia. Qed.

(* ---------- round trip ---------- *)
Section RoundTrip.
Variable parse : string -> option fnum.           (* float(text) of the reading side *)
Definition as_cells (row : list string) : crow := map (fun t => {| c_text := t; c_float := parse t |}) row.
Definition value_of (w : wval) : option fnum := match w_cell w with OFloat f => Some f | OInt z => Some (FFin (inject_Z z)) | OMissing => None end.
(* H_repr: what str() wrote, float() reads back as the same number -- for the non-missing cells of the column *)
Definition repr_ok (col : list wval) : Prop := forall w, In w col -> exists f, value_of w = Some f /\ parse (w_text w) = Some f.

Lemma column_app idx a b i : column idx (a ++ b)%list i =
  match column idx a i with inl vs => match column idx b (i + length a) with inl ws => inl (vs ++ ws)%list | inr e => inr e end | inr e => inr e end.
Proof. revert i. induction a as [|r t IH]; intros i; simpl.
  - rewrite Nat.add_0_r. destruct (column idx b i); reflexivity.
  - destruct r as [|c0 r'].
    + rewrite IH. replace (S i + length t) with (i + S (length t)) by lia. reflexivity.
    + destruct (nth_error (c0 :: r') idx); [|reflexivity]. destruct (c_float c); [|reflexivity]. rewrite IH.
      replace (S i + length t) with (i + S (length t)) by lia. destruct (column idx t (S i)); [|reflexivity].
      destruct (column idx b _); reflexivity. Qed.

Lemma firstn_S_nth {A} (l : list A) n w : nth_error l n = Some w -> firstn (S n) l = (firstn n l ++ [w])%list.
Proof. revert n. induction l as [|x t IH]; intros n H; [destruct n; discriminate|]. destruct n; simpl in *; [inversion H; reflexivity|].
  rewrite (IH n H). reflexivity. Qed.
Lemma column_of_written cols j col n : nth_error cols j = Some col -> cols <> [] -> n <= length col -> repr_ok col ->
  exists vs, column j (map as_cells (transpose_cols n cols)) 0 = inl vs /\ map Some vs = map value_of (firstn n col).
Proof. intros Hj Hne. induction n as [|n IH]; intros Hn Hr.
  - exists []. split; reflexivity.
  - destruct (IH ltac:(lia) Hr) as [vs [C V]]. simpl transpose_cols. rewrite map_app, column_app, C. simpl map.
    destruct (nth_error col n) as [w|] eqn:Nw; [|apply nth_error_None in Nw; lia].
    destruct (Hr w (nth_error_In _ _ Nw)) as [f [Vf Pf]].
    set (row := map (fun c => match nth_error c n with Some w0 => cell_text w0 | None => "" end) cols).
    assert (R : nth_error (as_cells row) j = Some {| c_text := w_text w; c_float := Some f |}).
    { unfold as_cells, row. rewrite nth_error_map, nth_error_map, Hj. simpl. rewrite Nw. unfold cell_text.
      destruct (w_cell w) eqn:Wc; unfold value_of in Vf; rewrite Wc in Vf; try discriminate; simpl; rewrite Pf; reflexivity. }
    assert (NB : as_cells row <> []). { unfold as_cells, row. destruct cols; [congruence | discriminate]. }
    cbn [column]. destruct (as_cells row) as [|c0 r'] eqn:AR; [congruence|]. rewrite R. simpl.
    exists (vs ++ [f])%list. split; [reflexivity|]. rewrite map_app, V. simpl.
    rewrite (firstn_S_nth col n w Nw) at 1. rewrite map_app. simpl. rewrite Vf. reflexivity.
Qed.
End RoundTrip.
