(* A run in which some execute() fails leaves a consistent partial state behind (so that C01_resume applies to the next run). *)
From Coq Require Import List Arith Lia Bool PeanoNat.
From MP Require Import Model.Sched Model.SchedFail Proofs.SchedProofs Proofs.SchedTop Proofs.SchedResume.
Import ListNotations.
Set Implicit Arguments.

Section FailProofs.
Variable V : Type.
Variable F : cmd -> list V -> V.
Variable Fo : cmd -> list V -> option V.
Hypothesis refines : forall c vs v, Fo c vs = Some v -> v = F c vs.     (* when execute returns, it returns what the command computes *)
Variable rank : name -> nat.
Notation memoT := (memoT V).
Notation assoc := (@assoc V).
Notation pullf_list := (@pullf_list V).
Notation pullf := (@pullf V Fo).
Notation run_leavesf := (@run_leavesf V Fo).
Notation run_programf := (@run_programf V Fo).

Record InvM (P : prog) (stk : list name) (m : memoT) : Prop := {
  m_keys : NoDup (map fst m);
  m_known : forall n v, assoc m n = Some v -> In n (names P);
  m_cons : forall n v c, assoc m n = Some v -> lookup P n = Some c ->
           exists vs, Forall2 (fun d w => assoc m d = Some w) (refs c) vs /\ v = F c vs;
  m_stk : forall n, In n stk -> assoc m n = None }.
Definition ext (m m' : memoT) := forall n w, assoc m n = Some w -> assoc m' n = Some w.

Definition pullf_spec (P : prog) (pl : memoT -> name -> fout V (memoT * V)) (bound : nat) : Prop :=
  forall n m stk, InvM P stk m -> In n (names P) -> rank n < bound -> (forall k, In k stk -> rank n < rank k) ->
    match pl m n with
    | FOk (m', v) => InvM P stk m' /\ assoc m' n = Some v /\ ext m m'
    | FFailed m' _ => InvM P stk m' /\ ext m m'
    | FOther => False
    end.

Lemma pullf_list_ok P pl bound : pullf_spec P pl bound ->
  forall ns m stk b, InvM P stk m -> b <= bound ->
    (forall d, In d ns -> In d (names P) /\ rank d < b /\ forall k, In k stk -> rank d < rank k) ->
    match pullf_list pl m ns with
    | FOk (m', vs) => InvM P stk m' /\ Forall2 (fun d w => assoc m' d = Some w) ns vs /\ ext m m'
    | FFailed m' _ => InvM P stk m' /\ ext m m'
    | FOther => False
    end.
Proof. intros Hpl ns. induction ns as [|n t IH]; intros m stk b HI Hb Hns; cbn [pullf_list].
  - split; [exact HI|]. split; [constructor | intros k w H; exact H].
  - destruct (Hns n (or_introl eq_refl)) as [Hin [Hr Hstk]].
    pose proof (Hpl n m stk HI Hin ltac:(lia) Hstk) as S1. destruct (pl m n) as [[m1 v]|m' k|]; [|exact S1|exact S1].
    destruct S1 as [HI1 [G1 X1]].
    pose proof (IH m1 stk b HI1 Hb (fun d Hd => Hns d (or_intror Hd))) as S2.
    destruct (pullf_list pl m1 t) as [[m2 vs]|m' k|]; [|destruct S2 as [A B]; split; [exact A | intros q w Hq; apply B, X1, Hq]|exact S2].
    destruct S2 as [HI2 [F2 X2]]. split; [exact HI2|]. split; [constructor; [apply X2, G1 | exact F2] | intros q w Hq; apply X2, X1, Hq].
Qed.

Lemma assoc_cons_ne (m : memoT) n v k : k <> n -> assoc ((n, v) :: m) k = assoc m k.
Proof. intros H. cbn [Sched.assoc]. destruct (Nat.eqb n k) eqn:E; [apply Nat.eqb_eq in E; congruence | reflexivity]. Qed.
Lemma assoc_cons_eq (m : memoT) n v : assoc ((n, v) :: m) n = Some v.
Proof. cbn [Sched.assoc]. rewrite Nat.eqb_refl. reflexivity. Qed.

Theorem pullf_ok P : wf_dag P rank -> forall fuel, pullf_spec P (pullf fuel P) fuel.
Proof. intros W fuel. induction fuel as [|f IH]; intros n m stk HI Hin Hr Hstk; [lia|].
  cbn [pullf]. destruct (assoc m n) as [v|] eqn:G.
  - split; [exact HI|]. split; [exact G | intros k w H; exact H].
  - destruct (in_names_lookup P n Hin) as [c L]. rewrite L. destruct (lookup_In _ _ L) as [HcP Hnm].
    assert (HI0 : InvM P (n :: stk) m).
    { constructor; [apply (m_keys HI) | apply (m_known HI) | apply (m_cons HI)|]. intros k [<-|H]; [exact G | apply (m_stk HI _ H)]. }
    pose proof (@pullf_list_ok P (pullf f P) f IH (refs c) m (n :: stk) (rank n) HI0 ltac:(lia)) as S1.
    assert (Hrefs : forall d, In d (refs c) -> In d (names P) /\ rank d < rank n /\ forall k, In k (n :: stk) -> rank d < rank k).
    { intros d Hd. split; [eapply wf_refs; eauto|]. assert (R : rank d < rank n) by (rewrite <- Hnm; eapply wf_rank; eauto).
      split; [exact R|]. intros k [<-|H]; [exact R | specialize (Hstk k H); lia]. }
    specialize (S1 Hrefs). destruct (pullf_list (pullf f P) m (refs c)) as [[m1 vs]|m' k|]; [| |exact S1].
    + destruct S1 as [HI1 [F1 X1]]. assert (G1n : assoc m1 n = None) by (apply (m_stk HI1); left; reflexivity).
      assert (drop : forall stk', (forall k, In k stk' -> In k (n :: stk)) -> InvM P stk' m1).
      { intros stk' Hs. constructor; [apply (m_keys HI1) | apply (m_known HI1) | apply (m_cons HI1) | intros k Hk; apply (m_stk HI1), Hs, Hk]. }
      destruct (Fo c vs) as [v|] eqn:EF.
      * assert (X12 : ext m1 ((n, v) :: m1)).
        { intros k w Hk. destruct (Nat.eq_dec k n) as [->|Hne]; [congruence | rewrite assoc_cons_ne by exact Hne; exact Hk]. }
        split; [|split; [apply assoc_cons_eq | intros k w Hk; apply X12, X1, Hk]].
        constructor.
        -- cbn [map fst]. constructor; [|apply (m_keys HI1)]. intros Hk. apply (proj2 (assoc_in m1 n)) in Hk. destruct Hk as [w Hw]. congruence.
        -- intros k w Hk. destruct (Nat.eq_dec k n) as [->|Hne]; [exact Hin | rewrite assoc_cons_ne in Hk by exact Hne; eapply (m_known HI1); eauto].
        -- intros k w c' Hk Lk. destruct (Nat.eq_dec k n) as [->|Hne].
           ++ rewrite L in Lk. inversion Lk; subst c'. rewrite assoc_cons_eq in Hk. inversion Hk; subst w.
              exists vs. split; [|apply refines; exact EF]. eapply Forall2_impl'; [|exact F1]. intros d w Hd. apply X12, Hd.
           ++ rewrite assoc_cons_ne in Hk by exact Hne. destruct (m_cons HI1 _ Hk Lk) as [ws [Fw Ew]].
              exists ws. split; [|exact Ew]. eapply Forall2_impl'; [|exact Fw]. intros d w' Hd. apply X12, Hd.
        -- intros k Hk. assert (Hne : k <> n) by (intros ->; specialize (Hstk n Hk); lia).
           rewrite assoc_cons_ne by exact Hne. apply (m_stk HI1). right. exact Hk.
      * split; [apply drop; intros k Hk; right; exact Hk | exact X1].
    + destruct S1 as [HI1 X1]. split; [|exact X1].
      constructor; [apply (m_keys HI1) | apply (m_known HI1) | apply (m_cons HI1) | intros q Hq; apply (m_stk HI1); right; exact Hq].
Qed.

Lemma run_leavesf_ok P fuel : wf_dag P rank -> (forall n, In n (names P) -> rank n < fuel) ->
  forall ls m, InvM P [] m -> (forall c, In c ls -> In c P) ->
  match run_leavesf fuel P m ls with
  | FOk m' => InvM P [] m' /\ ext m m'
  | FFailed m' _ => InvM P [] m' /\ ext m m'
  | FOther => False
  end.
Proof. intros W B ls. induction ls as [|c ls IH]; intros m HI Hls; cbn [run_leavesf].
  - split; [exact HI | intros k w H; exact H].
  - assert (Hc : In (nm c) (names P)) by (apply in_map, Hls; left; reflexivity).
    pose proof (@pullf_ok P W fuel (nm c) m [] HI Hc (B _ Hc) (fun k Hk => match Hk with end)) as S1.
    destruct (pullf fuel P m (nm c)) as [[m1 v]|m' k|]; [|exact S1|exact S1]. destruct S1 as [HI1 [_ X1]].
    pose proof (IH m1 HI1 (fun c' Hc' => Hls c' (or_intror Hc'))) as S2.
    destruct (run_leavesf fuel P m1 ls) as [m2|m' k|]; [| |exact S2]; destruct S2 as [A Bx]; (split; [exact A | intros q w Hq; apply Bx, X1, Hq]).
Qed.

End FailProofs.

Section FailTop.
Variable V : Type.
Variable F : cmd -> list V -> V.
Variable Fo : cmd -> list V -> option V.
Hypothesis refines : forall c vs v, Fo c vs = Some v -> v = F c vs.
(* THE THEOREM: whatever fails, and whenever, what is left behind is a consistent partial state that extends the one the run
   started from -- for every accepted program, every partial semantics Fo that agrees with F where it is defined *)
Theorem failed_run_consistent P fuel (s0 : st V) : accepted P -> length P < fuel -> consistent F P s0 ->
  match @SchedFail.run_programf V Fo fuel P (memo s0) with
  | FOk m' | FFailed m' _ => forall t, consistent F P {| memo := m'; trace := t |} /\ (forall n w, Sched.assoc (memo s0) n = Some w -> Sched.assoc m' n = Some w)
  | FOther => False
  end.
Proof. intros [ND [FM FC]] Hf C. unfold SchedFail.run_programf. rewrite FM, FC.
  destruct (prepass_rank P ND FM (find_cycle_None _ FC)) as [W RB].
  assert (HI0 : InvM F P [] (memo s0)).
  { constructor; [apply (c_keys C) | apply (c_known C) | apply (c_cons C) | intros n []]. }
  assert (Bd : forall n, In n (names P) -> round_of (length P) P n < fuel) by (intros n _; specialize (RB n); lia).
  pose proof (@run_leavesf_ok V F Fo refines _ P fuel W Bd (filter (is_leaf P) P) (memo s0) HI0
                (fun c Hc => proj1 (proj1 (filter_In _ _ _) Hc))) as S.
  destruct (@SchedFail.run_leavesf V Fo fuel P (memo s0) (filter (is_leaf P) P)) as [m'|m' k|]; [| |exact S]; destruct S as [HI X]; intros t;
    (split; [constructor; [apply (m_keys HI) | apply (m_known HI) | apply (m_cons HI)] | exact X]).
Qed.
End FailTop.

(* the two halves put together: a first run in which something fails, then a run with the cause repaired *)
Section FailThenRetry.
Variable V : Type.
Variable F : cmd -> list V -> V.
Variable Fo : cmd -> list V -> option V.
Hypothesis refines : forall c vs v, Fo c vs = Some v -> v = F c vs.

Lemma consistent_init P : consistent F P (init V).
Proof. constructor; cbn; [constructor | intros n v H; discriminate | intros n v c H; discriminate]. Qed.

Theorem fail_then_retry P fuel m' k : accepted P -> length P < fuel ->
  run_programf Fo fuel P [] = FFailed m' k ->
  forall t, exists suffix s, run_program F fuel P {| memo := m'; trace := t |} = Ok s /\ trace s = t ++ suffix /\
    (forall n w, Sched.assoc m' n = Some w -> get s n = Some w) /\
    (forall n, In n (names P) -> fin s n = true /\
       count_ev (Enter n) suffix = (if Sched.assoc m' n then 0 else 1) /\ count_ev (Exit n) suffix = (if Sched.assoc m' n then 0 else 1)) /\
    solves V F P (get s).
Proof. intros A Hf E t.
  pose proof (@failed_run_consistent V F Fo refines P fuel (init V) A Hf (consistent_init P)) as S. cbn [memo init] in S. rewrite E in S.
  destruct (S t) as [C _].
  destruct (@run_resume V F P fuel {| memo := m'; trace := t |} A Hf C) as (suffix & s & R & T & X & Fin & _ & Sol).
  exists suffix, s. split; [exact R|]. split; [exact T|]. split; [intros n w H; apply X; exact H|]. split; [|exact Sol].
  intros n Hn. destruct (Fin n Hn) as (A1 & A2 & A3). split; [exact A1|].
  unfold Sched.fin, Sched.get in A2, A3. cbn [memo] in A2, A3. destruct (Sched.assoc m' n); split; assumption.
Qed.
End FailThenRetry.
