From Coq Require Import String List Bool ZArith QArith.
From MP Require Import Base.Sig Model.Eems2 Model.Eems2Spec.
Import ListNotations.
Open Scope string_scope.

Section P.
Variable table : list (string * string).
Let fallbacks := ["NewFieldName"; "InFieldName"].
Let dropped := ["NewFieldName"; "OutFileName"].

Lemma filter_ext_bool {A} (f g : A -> bool) l : (forall x, f x = g x) -> filter f l = filter g l.
Proof. intros H. induction l as [|x l IH]; simpl; [reflexivity|]. rewrite H, IH. reflexivity. Qed.

Lemma keep_arg_dropped a : negb (mem_str (fst a) dropped) = keep_arg a.
Proof. unfold keep_arg, dropped. simpl. destruct (String.eqb (fst a) "NewFieldName"), (String.eqb (fst a) "OutFileName"); reflexivity. Qed.

(* the code's conversion of one node is the specified translation, for every well-formed v2 node *)
Lemma convert_node_spec n : wf_v2 n = true -> convert_node table fallbacks dropped n = translate_node table n.
Proof.
  intros W. unfold convert_node, translate_node. f_equal.
  - unfold spec_result, fallbacks. simpl. unfold wf_v2 in W. apply andb_prop in W. destruct W as [W1 W2].
    destruct (n_result n) as [r|] eqn:R; simpl in *.
    + rewrite W1. reflexivity.
    + destruct (find_argument (n_args n) "NewFieldName") as [v|] eqn:F; simpl in *.
      * rewrite W2. reflexivity.
      * reflexivity.
  - apply filter_ext_bool. intros a. apply keep_arg_dropped.
Qed.

Lemma convert_spec P : forallb wf_v2 P = true -> convert table fallbacks dropped P = translate_v2 table P.
Proof.
  induction P as [|n P IH]; simpl; [reflexivity|]. intros H. apply andb_prop in H. destruct H as [H1 H2].
  unfold convert, translate_v2 in *. simpl. rewrite (convert_node_spec n H1). f_equal. apply IH. exact H2.
Qed.

(* facts that hold with no well-formedness hypothesis at all *)
Lemma convert_length P : length (convert table fallbacks dropped P) = length P.
Proof. unfold convert. apply map_length. Qed.

Lemma convert_lines P : map n_line (convert table fallbacks dropped P) = map n_line P.
Proof. unfold convert. rewrite map_map. reflexivity. Qed.

Lemma convert_args_sublist n a :
  In a (n_args (convert_node table fallbacks dropped n)) <-> In a (n_args n) /\ mem_str (fst a) dropped = false.
Proof. unfold convert_node; simpl. rewrite filter_In. rewrite negb_true_iff. tauto. Qed.

(* an MPilot-style command (it has a result name, its command name is not an EEMS 2.0 name and it
   has no NewFieldName/OutFileName argument) is left exactly as it is, also inside a v2 file *)
Definition mp_style (n : node) : bool :=
  otruthy (n_result n) &&
  match assoc_str table (n_cmd n) with Some _ => false | None => true end &&
  forallb (fun a => negb (mem_str (fst a) dropped)) (n_args n).

Lemma filter_all_true {A} (f : A -> bool) l : forallb f l = true -> filter f l = l.
Proof. induction l as [|x l IH]; simpl; [reflexivity|]. intros H. apply andb_prop in H. destruct H as [H1 H2]. rewrite H1, IH; auto. Qed.

Lemma mp_style_unchanged n : mp_style n = true -> convert_node table fallbacks dropped n = n.
Proof.
  unfold mp_style. intros H. apply andb_prop in H. destruct H as [H H3]. apply andb_prop in H. destruct H as [H1 H2].
  destruct n as [r c a l]. unfold convert_node; simpl in *. f_equal.
  - rewrite H1. reflexivity.
  - destruct (assoc_str table c); [discriminate|reflexivity].
  - apply filter_all_true. exact H3.
Qed.

(* a program that is entirely MPilot style and was not flagged by the parser is loaded untouched *)
Lemma load_mp_style P : forallb mp_style P = true -> load_nodes table fallbacks dropped false P = P.
Proof.
  intros H. unfold load_nodes, is_v2. simpl.
  assert (E : existsb (fun n => match assoc_str table (n_cmd n) with Some _ => true | None => false end) P = false).
  { induction P as [|n P IH]; simpl; [reflexivity|]. simpl in H. apply andb_prop in H. destruct H as [H1 H2].
    rewrite (IH H2). unfold mp_style in H1. apply andb_prop in H1. destruct H1 as [H1 _]. apply andb_prop in H1. destruct H1 as [_ H1].
    destruct (assoc_str table (n_cmd n)); [discriminate|reflexivity]. }
  rewrite E. reflexivity.
Qed.
End P.
