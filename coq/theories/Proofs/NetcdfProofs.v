(* C18: NetCDF write/read logic. *)
From Coq Require Import String List Bool ZArith QArith Arith Lia Lqa.
From MP Require Import Base.Sig Model.Params Model.Csv Model.Netcdf.
Import ListNotations.
Open Scope nat_scope.

Definition any_missing_at (cols : list (list ocell)) (i : nat) : bool :=
  existsb (fun c => match nth_error c i with Some x => is_missing x | None => false end) cols.

Lemma union_mask_length cols n : cols <> [] -> Forall (fun c => length c = n) cols -> length (union_mask cols) = n.
Proof. induction cols as [|c rest IH]; intros Ne H; [congruence|]. inversion H; subst. destruct rest as [|d r'].
  - simpl. apply map_length.
  - change (union_mask (c :: d :: r')) with (map (fun p : bool * bool => fst p || snd p) (combine (map is_missing c) (union_mask (d :: r')))).
    rewrite map_length, combine_length, map_length, IH; [lia | discriminate | assumption]. Qed.

Lemma nth_error_combine {A B} (a : list A) (b : list B) i x y :
  nth_error a i = Some x -> nth_error b i = Some y -> nth_error (combine a b) i = Some (x, y).
Proof. revert b i. induction a as [|p a' IH]; intros b i Ha Hb; [destruct i; discriminate|].
  destruct b as [|q b']; [destruct i; discriminate|]. destruct i; simpl in *; [inversion Ha; inversion Hb; reflexivity | apply IH; assumption]. Qed.

(* the written mask is the union of the missing cells of all results written together *)
Lemma union_mask_nth cols n i : cols <> [] -> Forall (fun c => length c = n) cols -> i < n ->
  nth_error (union_mask cols) i = Some (any_missing_at cols i).
Proof. induction cols as [|c rest IH]; intros Ne H Hi; [congruence|]. inversion H as [|? ? Hc Hr]; subst. destruct rest as [|d r'].
  - simpl. rewrite nth_error_map. destruct (nth_error c i) eqn:E; [simpl; rewrite orb_false_r; reflexivity | apply nth_error_None in E; lia].
  - change (union_mask (c :: d :: r')) with (map (fun p : bool * bool => fst p || snd p) (combine (map is_missing c) (union_mask (d :: r')))).
    rewrite nth_error_map.
    assert (L : length (union_mask (d :: r')) = length c) by (apply union_mask_length; [discriminate | assumption]).
    destruct (nth_error c i) as [x|] eqn:E; [|apply nth_error_None in E; lia].
    specialize (IH ltac:(discriminate) Hr Hi).
    assert (K : nth_error (combine (map is_missing c) (union_mask (d :: r'))) i = Some (is_missing x, any_missing_at (d :: r') i)).
    { apply nth_error_combine; [rewrite nth_error_map, E; reflexivity | exact IH]. }
    rewrite K. cbn [option_map fst snd]. unfold any_missing_at. cbn [existsb]. rewrite E. reflexivity. Qed.

Lemma write_var_nth mask cells i b x : nth_error mask i = Some b -> nth_error cells i = Some x ->
  nth_error (write_var mask cells) i = Some (if b then OMissing else x).
Proof. intros A B. unfold write_var. rewrite nth_error_map, (nth_error_combine mask cells i b x A B). reflexivity. Qed.

(* reading a float variable with the defaults returns it cell for cell *)
Lemma read_default_float shape cells : Forall (fun c => match c with OMissing | OFloat (FFin _) => True | _ => False end) cells ->
  read_var (Some {| v_kind := KFloat64; v_shape := shape; v_cells := cells |}) NFloat None = NOk shape cells.
Proof. intros H. unfold read_var. simpl. f_equal. induction H as [|c t Hc _ IH]; simpl; [reflexivity|]. rewrite IH. f_equal.
  destruct c as [|[q| | |]|z]; try tauto; reflexivity. Qed.

Lemma clampq_range q : (-1 <= clampq q <= 1)%Q.
Proof. unfold clampq. destruct (Qlt_le_dec 1 q); [lra|]. destruct (Qlt_le_dec q (-1)); lra. Qed.
