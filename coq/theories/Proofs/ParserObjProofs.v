From Coq Require Import NArith List Bool.
From MP Require Import Model.Lexer Gen.GenGrammar Model.Parser Model.ParserObj.
Import ListNotations.
Open Scope N_scope.

(* with the three resets in place, what parse() delivers is a function of the text alone: whatever the object holds *)
Theorem parse_obj_reset fs o s : fst (parse_obj all_resets fs o s) = parse fs s.
Proof. unfold parse_obj, parse, lex_all. cbn [all_resets rs_lineno rs_v2 rs_errors].
  destruct (lex (S (length s)) 1 0 s) as [toks|]; [|reflexivity].
  destruct (lr toks) as [t|]; [|reflexivity].
  destruct (eval fs t) as [[]| |]; try reflexivity. destruct p. reflexivity. Qed.

(* ... and it leaves the object in a state that depends on the text alone, too *)
Theorem parse_obj_state fs o o' s : snd (parse_obj all_resets fs o s) = snd (parse_obj all_resets fs o' s).
Proof. unfold parse_obj. cbn [all_resets rs_lineno rs_v2 rs_errors]. reflexivity. Qed.

(* each reset is needed: without it there is a reachable state of the object from which some text is delivered differently *)
Definition t_cmd : text := [65; 32; 61; 32; 66; 40; 41]%N.                  (* A = B() *)
Definition t_cmd_nl : text := [65; 32; 61; 32; 66; 40; 41; 10]%N.           (* A = B() + line feed *)
Definition t_v2 : text := [66; 40; 41]%N.                                    (* B()  -- EEMS 2.0 form *)
Definition after (R : resets) (s : text) : pobj := match snd (parse_obj R (fun _ => None) fresh s) with Some o => o | None => fresh end.
Example lineno_reset_needed :
  let R := {| rs_lineno := false; rs_v2 := true; rs_errors := true |} in
  fst (parse_obj R (fun _ => None) (after R t_cmd_nl) t_cmd) <> parse (fun _ => None) t_cmd.
Proof. vm_compute. discriminate. Qed.
Example v2_reset_needed :
  let R := {| rs_lineno := true; rs_v2 := false; rs_errors := true |} in
  fst (parse_obj R (fun _ => None) (after R t_v2) t_cmd) <> parse (fun _ => None) t_cmd.
Proof. vm_compute. discriminate. Qed.
Example errors_reset_needed :
  let R := {| rs_lineno := true; rs_v2 := true; rs_errors := false |} in
  fst (parse_obj R (fun _ => None) {| po_lineno := 1; po_v2 := false; po_pending := true |} t_cmd) <> parse (fun _ => None) t_cmd.
Proof. vm_compute. discriminate. Qed.
