(* Comparison of Model/Loader.v with observations of Program.from_source + Program.run (drivers/c12_driver.py). *)
From Coq Require Import String List Bool ZArith QArith.
From MP Require Import Base.Sig Model.Params Model.Loader Corr.CheckParams Gen.GenSigs Gen.GenParamFacts.
Import ListNotations.
Open Scope string_scope.

Definition subset_str (a b : list string) : bool := forallb (fun x => mem_str x b) a.
Definition lerr_eqb (a b : lerr) : bool :=
  match a, b with
  | LCommandDoesNotExist c l, LCommandDoesNotExist c' l' => String.eqb c c' && Nat.eqb l l'
  | LDuplicateResult r l, LDuplicateResult r' l' => String.eqb r r' && Nat.eqb l l'
  | LMissingParameters c m l, LMissingParameters c' m' l' => String.eqb c c' && subset_str m m' && subset_str m' m && Nat.eqb l l'
  | LNoSuchParameter c p l, LNoSuchParameter c' p' l' => String.eqb c c' && String.eqb p p' && Nat.eqb l l'
  | LParam e l, LParam e' l' => perr_eqb e e' && Nat.eqb l l'
  | _, _ => false
  end.
Definition olerr_eqb (a b : option lerr) : bool :=
  match a, b with None, None => true | Some x, Some y => lerr_eqb x y | _, _ => false end.
(* (signatures of user-library commands loaded next to the CSV set, working dir, existing paths, nodes, observed) *)
Definition check_load (c : list sig * option string * list string * list node * option lerr) : bool :=
  let '(extra, wdir, paths, nodes, obs) := c in
  forallb (fun n => forallb (fun a => oracle_ok (g_value a)) (n_args n)) nodes &&
  olerr_eqb (load_and_prepass param_facts accepts_table (sigs_csv ++ extra) wdir (fun s => mem_str s paths) nodes) obs.
