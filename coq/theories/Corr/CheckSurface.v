(* Is a generated rendering an instance of the layout theorem C10_layout_irrelevance?  The driver decomposes the text into a
   surface program, the gaps before its tokens and the final gap (drivers/surface_lib.py, untrusted); here the text is
   re-assembled from that decomposition and every hypothesis of the theorem is evaluated. *)
From Coq Require Import NArith List Bool.
From MP Require Import Model.Lexer Model.Parser Proofs.LrComplete Proofs.Layout Proofs.Surface Proofs.SurfaceLayout Corr.CheckParser.
Import ListNotations.
Definition instance_of_layout_theorem (c : list xcmd * list text * text * text * list (text * text)) : bool :=
  let '(p, gaps, final, src, fl) := c in
  match p with [] => false | _ => surface_okb (assoc_text fl) p gaps final && text_eqb (lay (combine gaps (tkx_program p)) final) src end.
