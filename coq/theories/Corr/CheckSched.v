(* Comparison of the scheduler model with observations of the real Program.run (drivers/sched_driver.py).
   The abstract command semantics F is instantiated with the hash the probe commands compute. *)
From Coq Require Import List ZArith Bool Arith.
From MP Require Import Model.Sched.
Import ListNotations.

Definition Mz : Z := (2 ^ 61 - 1)%Z.
(* probe commands whose Id is 3 mod 7 return None (observed as -1); a consumed None counts as 5 *)
Definition Fh (c : cmd) (vs : list Z) : Z :=
  if Nat.eqb (Nat.modulo (nm c) 7) 3 then (-1)%Z else
  ((Z.of_nat (nm c) + 1 + 31 * fold_left (fun acc v => (acc * 1000003 + (if Z.eqb v (-1) then 5 else v)) mod Mz) vs 0) mod Mz)%Z.

Record obs := {
  o_tag : nat;                 (* 0 ran, 1 ResultDoesNotExist, 2 RecursiveModelStructure, 3 anything else *)
  o_rep : option name;         (* command whose line the recursive-model error carries *)
  o_vals : list (name * Z);
  o_enter : list (name * nat);
  o_exit : list (name * nat);
  o_after : nat }.             (* execute entries/exits logged during the history after the first run *)

Definition oname_eqb (a b : option name) := match a, b with None, None => true | Some x, Some y => Nat.eqb x y | _, _ => false end.

Definition check_case (c : prog * list op * obs) : bool :=
  let '(P, ops, o) := c in
  let fuel := S (S (length P)) in
  match run_program Fh fuel P (init Z) with
  | Ok s =>
      Nat.eqb (o_tag o) 0
      && Nat.eqb (length (o_vals o)) (length P)
      && forallb (fun nv => match get s (fst nv) with Some w => Z.eqb (snd nv) w | None => false end) (o_vals o)
      && forallb (fun nk => Nat.eqb (count_ev (Enter (fst nk)) (trace s)) (snd nk)) (o_enter o)
      && forallb (fun nk => Nat.eqb (count_ev (Exit (fst nk)) (trace s)) (snd nk)) (o_exit o)
      && Nat.eqb (length (trace (fold_left (apply_op Fh fuel P) ops s)) - length (trace s)) (o_after o)
  | ErrMissing _ => Nat.eqb (o_tag o) 1
  | ErrRecursive n => Nat.eqb (o_tag o) 2 && oname_eqb (o_rep o) (Some n)
  | OutOfStack => false
  end.

(* resuming: the state observed on the real program before a run that succeeds after earlier runs failed (the finished commands and
   their results), the results afterwards and the execute entries / exits logged during that last run *)
Definition check_resume (c : prog * list (name * Z) * list (name * Z) * list (name * nat) * list (name * nat)) : bool :=
  let '(P, memo0, vals, enters, exits) := c in
  let fuel := S (S (length P)) in
  match run_program Fh fuel P {| memo := memo0; trace := [] |} with
  | Ok s =>
      Nat.eqb (length vals) (length P)
      && forallb (fun nv => match get s (fst nv) with Some w => Z.eqb (snd nv) w | None => false end) vals
      && forallb (fun nk => Nat.eqb (count_ev (Enter (fst nk)) (trace s)) (snd nk)) enters
      && forallb (fun nk => Nat.eqb (count_ev (Exit (fst nk)) (trace s)) (snd nk)) exits
  | _ => false
  end.

(* a run in which the commands `flaky` fail: the finished commands and their results the real program is left with, and the
   command whose execute raised *)
From MP Require Import Model.SchedFail.
Definition check_failed (c : prog * list name * list (name * Z) * name) : bool :=
  let '(P, flaky, memo_after, failed) := c in
  let fuel := S (S (length P)) in
  let Fo := fun c vs => if mem (nm c) flaky then None else Some (Fh c vs) in
  match run_programf Fo fuel P [] with
  | FFailed m k =>
      Nat.eqb k failed && Nat.eqb (length m) (length memo_after)
      && forallb (fun nv => match assoc m (fst nv) with Some w => Z.eqb (snd nv) w | None => false end) memo_after
  | _ => false
  end.
