(* The command-line tool's stderr for a command file with a fault on a known line: it must end with the context the model renders. *)
From Coq Require Import NArith List Bool.
From MP Require Import Model.Lexer Model.Cli Corr.CheckParser.
Import ListNotations.
Fixpoint starts_with (a b : text) : bool :=      (* b is a prefix of a *)
  match b, a with [], _ => true | y :: b', x :: a' => N.eqb x y && starts_with a' b' | _ :: _, [] => false end.
Definition ends_with (a b : text) : bool := starts_with (rev a) (rev b).
Definition check_cli (c : text * nat * text) : bool :=
  let '(file, lineno, stderr) := c in
  match context (lines_of_file file) lineno with
  | Some ctx => ends_with stderr (render ctx)
  | None => false
  end.
