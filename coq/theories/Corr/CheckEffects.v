(* Dynamic validation of the effect IR: when the implementation's result was observed to share memory with the arrays
   of an input parameter, the alias set the check derives for the returned object must contain that parameter. *)
From Coq Require Import String List Bool Arith.
From MP Require Import Model.Effects Gen.GenEffects.
Import ListNotations.
Open Scope string_scope.

Definition fz_of (flags : list bool) (i : inp) : bool := nth i flags false.
Fixpoint index_of (n : string) (l : list string) (k : nat) : option nat :=
  match l with [] => None | x :: t => if String.eqb x n then Some k else index_of n t (S k) end.
Fixpoint find_body (l : list (string * list bool * nat * stmt)) (n : string) :=
  match l with [] => None | b :: t => if String.eqb (fst (fst (fst b))) n then Some b else find_body t n end.
Fixpoint find_names (l : list (string * list string)) (n : string) :=
  match l with [] => None | b :: t => if String.eqb (fst b) n then Some (snd b) else find_names t n end.
Definition check_alias (c : string * list string) : bool :=
  match find_body execute_bodies4 (fst c), find_names input_names (fst c) with
  | Some b, Some names =>
      match check (fz_of (snd (fst (fst b)))) (snd b) [] with
      | Some g => match aget g (snd (fst b)) with
                  | Some s => forallb (fun nm => match index_of nm names 0 with Some i => existsb (Nat.eqb i) s | None => false end) (snd c)
                  | None => false end
      | None => false
      end
  | _, _ => false
  end.
