(* Comparison of Model/Csv.v with the real CSV EEMSRead / EEMSWrite (drivers/c17_driver.py). *)
From Coq Require Import String List Bool ZArith QArith.
From MP Require Import Base.Sig Model.Params Model.Csv Corr.CheckParams.
Import ListNotations.
Open Scope string_scope.

Definition ocell_eqb (a b : ocell) : bool :=
  match a, b with
  | OMissing, OMissing => true
  | OFloat x, OFloat y => fnum_eqb x y
  | OInt x, OInt y => Z.eqb x y
  | _, _ => false
  end.
Fixpoint list_eqb {A} (f : A -> A -> bool) (a b : list A) : bool :=
  match a, b with [], [] => true | x :: a', y :: b' => f x y && list_eqb f a' b' | _, _ => false end.
Definition cerr_eqb (a b : cerr) : bool :=
  match a, b with
  | CEmptyDataFile, CEmptyDataFile | CNoHeader, CNoHeader | CShortRow, CShortRow => true
  | CBadValue x, CBadValue y => Nat.eqb x y
  | _, _ => false
  end.
Definition rres_eqb (a b : rres) : bool :=
  match a, b with ROk x, ROk y => list_eqb ocell_eqb x y | RErr x, RErr y => cerr_eqb x y | _, _ => false end.
Definition check_read (c : list crow * string * option fnum * rdtype * rres) : bool :=
  let '(rows, field, missing, t, obs) := c in
  match read rows field missing t with Some r => rres_eqb r obs | None => false end.
Definition check_write (c : list string * list (list wval) * list (list string)) : bool :=
  let '(names, cols, obs) := c in list_eqb (list_eqb String.eqb) (write names cols) obs.
