(* Comparison of Model/Lexer.v + Model/Parser.v with the real Parser (drivers/c10_driver.py). *)
From Coq Require Import NArith ZArith QArith Qabs List Bool.
From MP Require Import Model.Lexer Model.Parser.
Import ListNotations.
Open Scope N_scope.

(* observed values: floats as exact rationals *)
Inductive oval := OVInt (z : Z) | OVFloat (q : Q) | OVStr (s : text) | OVList (l : list oexpr) | OVDict (kv : list (text * oexpr))
with oexpr := OE (v : oval) (line : N).
Record oarg := { oa_name : text; oa_value : oexpr; oa_line : N }.
Record ocmd := { oc_result : option text; oc_cmd : text; oc_args : list oarg; oc_line : N }.
Inductive observed := ObsOk (cmds : list ocmd) (version : N) | ObsSyntaxError.

Definition text_eqb (a b : text) : bool := if list_eq_dec N.eq_dec a b then true else false.
(* exact value of a FLOAT lexeme: [+-]? digits? . digits? ([eE][+-]?digits)? *)
Fixpoint dec_digits (s : text) (acc : Z) (n : nat) : Z * nat * text :=
  match s with
  | c :: t => if is_digit c then dec_digits t (acc * 10 + Z.of_N (c - 48))%Z (S n) else (acc, n, s)
  | [] => (acc, n, [])
  end.
Definition pow10 (e : Z) : Q := if (e <? 0)%Z then 1 # (Z.to_pos (10 ^ (- e))) else inject_Z (10 ^ e).
Definition q_of_float_lexeme (s : text) : Q :=
  let '(neg, s1) := match s with 45 :: t => (true, t) | 43 :: t => (false, t) | _ => (false, s) end in
  let '(ip, _, s2) := dec_digits s1 0 0 in
  let '(fp, fn, s3) := match s2 with 46 :: t => dec_digits t 0 0 | _ => (0%Z, 0%nat, s2) end in
  let ex := match s3 with
            | c :: t => if (c =? 101) || (c =? 69) then
                          match t with 45 :: u => (- fst (fst (dec_digits u 0 0)))%Z | 43 :: u => fst (fst (dec_digits u 0 0)) | _ => fst (fst (dec_digits t 0 0)) end
                        else 0%Z
            | [] => 0%Z end in
  let m := (inject_Z ip + inject_Z fp * pow10 (- Z.of_nat fn))%Q in
  let v := (m * pow10 ex)%Q in if neg then (- v)%Q else v.
(* float(text) is correctly rounded: within half a unit in the last place, which is at most 2^-52 |x| for normal doubles
   and 2^-1075 in the subnormal range *)
Definition float_close (model obs : Q) : bool :=
  Qle_bool (Qabs (obs - model)) ((1 # 4503599627370496) * Qabs model) || Qle_bool (Qabs (obs - model)) (1 # Z.to_pos (2 ^ 1075)).

Fixpoint val_ok (m : pval) (o : oval) {struct m} : bool :=
  match m, o with
  | PInt a, OVInt b => Z.eqb a b
  | PFloat lx, OVFloat q => float_close (q_of_float_lexeme lx) q
  | PStr a, OVStr b => text_eqb a b
  | PList l, OVList l' => (fix go (x : list pexpr) (y : list oexpr) : bool :=
                             match x, y with [], [] => true
                             | PE v ln :: x', OE v' ln' :: y' => val_ok v v' && N.eqb ln ln' && go x' y' | _, _ => false end) l l'
  | PDict kv, OVDict kv' => (fix go (x : list (text * pexpr)) (y : list (text * oexpr)) : bool :=
                               match x, y with [], [] => true
                               | (k, PE v ln) :: x', (k', OE v' ln') :: y' => text_eqb k k' && val_ok v v' && N.eqb ln ln' && go x' y' | _, _ => false end) kv kv'
  | _, _ => false
  end.
Definition expr_ok (m : pexpr) (o : oexpr) : bool := match m, o with PE v l, OE v' l' => val_ok v v' && N.eqb l l' end.
Fixpoint args_ok (m : list parg) (o : list oarg) : bool :=
  match m, o with [], [] => true
  | a :: m', b :: o' => text_eqb (pa_name a) (oa_name b) && expr_ok (pa_value a) (oa_value b) && N.eqb (pa_line a) (oa_line b) && args_ok m' o'
  | _, _ => false end.
Definition otext_eqb (a b : option text) : bool := match a, b with None, None => true | Some x, Some y => text_eqb x y | _, _ => false end.
Fixpoint cmds_ok (m : list pcmd) (o : list ocmd) : bool :=
  match m, o with [], [] => true
  | a :: m', b :: o' => otext_eqb (pc_result a) (oc_result b) && text_eqb (pc_cmd a) (oc_cmd b) && args_ok (pc_args a) (oc_args b)
                        && N.eqb (pc_line a) (oc_line b) && cmds_ok m' o'
  | _, _ => false end.
Fixpoint assoc_text (l : list (text * text)) (k : text) : option text :=
  match l with [] => None | (x, v) :: t => if text_eqb x k then Some v else assoc_text t k end.
(* (source text, oracle: str(float(lexeme)) for the FLOAT lexemes of the text, observed) *)
Definition check_parse (c : text * list (text * text) * observed) : bool :=
  let '(src, fl, obs) := c in
  match parse (assoc_text fl) src, obs with
  | POk p, ObsOk cmds v => cmds_ok (pp_cmds p) cmds && N.eqb (pp_version p) v
  | PSyntaxError, ObsSyntaxError => true
  | PUnsupported, _ => true          (* outside the model (\N{...} escapes): counted by the driver, not compared *)
  | _, _ => false
  end.
Definition unsupported (c : text * list (text * text) * observed) : bool :=
  let '(src, fl, obs) := c in match parse (assoc_text fl) src with PUnsupported => true | _ => false end.
