(* Comparison of Model/Params.v with observations of the real cleaners (drivers/c20_driver.py). *)
From Coq Require Import String List Bool ZArith QArith Ascii.
From MP Require Import Base.Sig Model.Params Gen.GenSigs Gen.GenParamFacts.
Import ListNotations.
Open Scope string_scope.

Definition fnum_eqb (a b : fnum) : bool :=
  match a, b with FFin x, FFin y => Qeq_bool x y | FInf, FInf | FNInf, FNInf | FNaN, FNaN => true | _, _ => false end.
(* values are compared up to the oracle fields (float text, what int()/float() make of a string) *)
Fixpoint raw_eqb (a b : raw) {struct a} : bool :=
  match a, b with
  | RInt x, RInt y => Z.eqb x y
  | RFloat x _, RFloat y _ => fnum_eqb x y
  | RBool x, RBool y => Bool.eqb x y
  | RStr x _ _, RStr y _ _ => String.eqb x y || String.eqb x "<object>"
  | RList x, RList y => (fix go (l m : list raw) : bool :=
                           match l, m with [], [] => true | p :: l', q :: m' => raw_eqb p q && go l' m' | _, _ => false end) x y
  | RDict x, RDict y => (fix go (l : list (string * raw)) (m : list (string * raw)) : bool :=
                           match l, m with [], [] => true
                           | (k, p) :: l', (k', q) :: m' => String.eqb k k' && raw_eqb p q && go l' m' | _, _ => false end) x y
  | RCmd x, RCmd y => String.eqb x y
  | RType x, RType y => String.eqb x y
  | RData, RData | RNone, RNone | RTuple0, RTuple0 => true
  | _, _ => false
  end.
Definition perr_eqb (a b : perr) : bool :=
  match a, b with
  | EParameterNotValid _, EParameterNotValid _ | EPathDoesNotExist, EPathDoesNotExist | EInvalidRelativePath, EInvalidRelativePath => true
  | EResultDoesNotExist x, EResultDoesNotExist y | EResultNotFuzzy x, EResultNotFuzzy y | EResultIsFuzzy x, EResultIsFuzzy y
  | EResultTypeNotValid x, EResultTypeNotValid y => String.eqb x y
  | EEscape x, EEscape y => String.eqb x y
  | _, _ => false
  end.
Definition cres_eqb (a b : cres) : bool :=
  match a, b with COk x, COk y => raw_eqb x y | CErr x, CErr y => perr_eqb x y | _, _ => false end.

Record penv := { e_wd : option string; e_paths : list string; e_cmds : list (string * cinfo) }.
Definition env_of (e : penv) : env := {| wd := e_wd e; path_exists := fun s => mem_str s (e_paths e); cmds := e_cmds e |}.

(* the simple numeric strings are read by a Coq parser too, to cross-check the oracle fields *)
Fixpoint digits_val (s : string) (acc : Z) : option Z :=
  match s with
  | EmptyString => Some acc
  | String c t => let n := Ascii.nat_of_ascii c in
                  if (Nat.leb 48 n && Nat.leb n 57)%bool then digits_val t (acc * 10 + Z.of_nat (n - 48)) else None
  end.
Definition dec_int (s : string) : option Z :=
  match s with
  | String "-"%char (String c t) => option_map Z.opp (digits_val (String c t) 0)
  | String "+"%char (String c t) => digits_val (String c t) 0
  | String c t => digits_val s 0
  | EmptyString => None
  end.
Fixpoint oracle_ok (v : raw) : bool :=
  match v with
  | RStr s i _ => match dec_int s with Some z => match i with Some z' => Z.eqb z z' | None => false end | None => true end
  | RList l => forallb oracle_ok l
  | _ => true
  end.

Definition check_case (c : penv * pkind * raw * cres) : bool :=
  let '(e, p, v, obs) := c in
  oracle_ok v && cres_eqb (clean param_facts accepts_table (env_of e) p v) obs.
