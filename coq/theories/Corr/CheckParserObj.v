(* One step of a Parser object's life: the observed state of the real object before parse(), the text, what parse() delivered
   and the observed state after -- against parse_obj with the resets read off the source (Gen/GenFacts.v). *)
From Coq Require Import NArith List Bool.
From MP Require Import Model.Lexer Model.Parser Model.ParserObj Gen.GenFacts Corr.CheckParser.
Import ListNotations.
Definition gen_resets : resets := let '(a, b, c) := parser_resets in {| rs_lineno := a; rs_v2 := b; rs_errors := c |}.
Definition check_pobj (c : (N * bool * bool) * text * list (text * text) * observed * (N * bool * bool)) : bool :=
  let '(o, src, fl, obs, o') := c in
  let '(l, v, e) := o in
  let '(l', v', e') := o' in
  let (r, st) := parse_obj gen_resets (assoc_text fl) {| po_lineno := l; po_v2 := v; po_pending := e |} src in
  match r, obs with
  | POk p, ObsOk cmds ver => cmds_ok (pp_cmds p) cmds && N.eqb (pp_version p) ver
  | PSyntaxError, ObsSyntaxError => true
  | PUnsupported, _ => true
  | _, _ => false
  end &&
  match st with
  | Some s => N.eqb (po_lineno s) l' && Bool.eqb (po_v2 s) v' && Bool.eqb (po_pending s) e'
  | None => true
  end.
