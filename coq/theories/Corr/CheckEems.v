(* Comparison of whole-model runs (Program.from_source + run over the EEMS CSV library) with Model/EemsProg.v. *)
From Coq Require Import QArith List Bool Arith.
From MP Require Import Model.Sched Model.Cells Model.EemsProg Corr.CheckCells.
Import ListNotations.

(* wider tolerance than for single commands: rounding errors of the implementation accumulate along the graph *)
Definition check_model (c : prog * list (name * nsem) * list (name * res arr)) : bool :=
  let '(P, tbl, obs) := c in
  match run_program (eemsF (sem_of tbl)) (S (S (length P))) P (init (res arr)) with
  | Ok s => Nat.eqb (length obs) (length P) &&
            forallb (fun nr => match get s (fst nr) with Some r => res_ok r (snd nr) | None => false end) obs
  | _ => false
  end.
