(* Comparison of Model/Netcdf.v with the real NetCDF EEMSRead / EEMSWrite (drivers/c18_driver.py). *)
From Coq Require Import String List Bool ZArith QArith.
From MP Require Import Base.Sig Model.Params Model.Csv Model.Netcdf Corr.CheckParams Corr.CheckCsv.
Import ListNotations.
Open Scope string_scope.

Fixpoint shape_eqb (a b : list nat) : bool :=
  match a, b with [], [] => true | x :: a', y :: b' => Nat.eqb x y && shape_eqb a' b' | _, _ => false end.
Definition nerr_eqb (a b : nerr) : bool :=
  match a, b with NNoSuchVariable, NNoSuchVariable | NInvalidPositive, NInvalidPositive | NInvalidFuzzy, NInvalidFuzzy | NUnexpected, NUnexpected => true | _, _ => false end.
Definition nres_eqb (a b : nres) : bool :=
  match a, b with
  | NOk s c, NOk s' c' => shape_eqb s s' && list_eqb ocell_eqb c c'
  | NErr x, NErr y => nerr_eqb x y
  | _, _ => false
  end.
Definition check_nread (c : option nvar * ntype * option Q * nres) : bool :=
  let '(v, t, m, obs) := c in nres_eqb (read_var v t m) obs.
Definition check_nwrite (c : list (list ocell) * list (list ocell)) : bool :=
  let '(cols, obs) := c in list_eqb (list_eqb ocell_eqb) (write_all cols) obs.
