(* Comparison of the serialiser model (Model/Serial.v) with Program.to_string (drivers/c15_driver.py): the abstract program
   is read off the live Program object (names, argument values by Python type), the text is what to_string returned. *)
From Coq Require Import NArith ZArith List Bool.
From MP Require Import Model.Lexer Model.Parser Model.Serial Corr.CheckParser.
Import ListNotations.
Open Scope N_scope.
Definition check_ser (c : list scmd * text) : bool := text_eqb (ser_program (fst c)) (snd c).
