(* Comparison of Model/Cells.v with observations of the real EEMS commands (drivers/cells_driver.py).
   Values agree when |impl - model| <= 2^-36 * max(1, |model|) (floating-point rounding in the implementation). *)
From Coq Require Import QArith Qminmax Qabs List Bool ZArith.
From MP Require Import Model.Cells.
Import ListNotations.
Open Scope Q_scope.

Definition tol : Q := 1 # 68719476736.
Definition close (m i : Q) : bool := Qle_bool (Qabs (i - m)) (tol * Qmax 1 (Qabs m)).
Definition cell_ok (m i : cell) : bool :=
  match m, i with None, None => true | Some a, Some b => close a b | _, _ => false end.
Fixpoint cells_ok (m i : list cell) : bool :=
  match m, i with [], [] => true | a :: m', b :: i' => cell_ok a b && cells_ok m' i' | _, _ => false end.
Definition dt_eqb (a b : dtype) := match a, b with DInt, DInt | DFloat, DFloat => true | _, _ => false end.
Definition err_eqb (a b : err) : bool :=
  match a, b with
  | EEmptyInputs, EEmptyInputs | EMixedShapes, EMixedShapes | EMismatchedWeights, EMismatchedWeights
  | EMixedLengths, EMixedLengths | EDuplicateRaw, EDuplicateRaw | EInvalidDirection, EInvalidDirection
  | EInvalidThresholds, EInvalidThresholds | EInvalidNumber, EInvalidNumber | EInvalidTruest, EInvalidTruest
  | EUnexpected, EUnexpected => true
  | _, _ => false
  end.
Definition res_ok (m i : res arr) : bool :=
  match m, i with
  | ROk a, ROk b => dt_eqb (a_dt a) (a_dt b) && shape_eqb (a_shape a) (a_shape b) && cells_ok (a_cells a) (a_cells b)
  | RErr e, RErr f => err_eqb e f
  | _, _ => false
  end.
(* the sigma oracle must really be the standard deviation of the input *)
Definition qvar (l : list Q) : Q := let mu := qmean l in qmean (map (fun x => (x - mu) * (x - mu)) l).
Definition sigma_ok (sigma : Q) (ins : list arr) : bool :=
  match ins with
  | [a] => match somes (a_cells a) with
           | [] => true
           | vals => Qle_bool 0 sigma && Qle_bool (Qabs (sigma * sigma - qvar vals)) ((1 # 1048576) * Qmax (1 # 1000000) (qvar vals))
           end
  | _ => true
  end.
Definition cmd_sigma (c : ecmd) : option Q :=
  match c with
  | NormalizeZScore s _ _ _ _ | NormalizeCurveZScore s _ _ | CvtToFuzzyZScore s _ _ | CvtToFuzzyCurveZScore s _ _ => Some s
  | _ => None
  end.
Definition check_case (c : ecmd * list arr * res arr) : bool :=
  let '(cmd, ins, obs) := c in
  match cmd_sigma cmd with Some s => sigma_ok s ins | None => true end && res_ok (run cmd ins) obs.
