#!/bin/sh
# usage: tools/seedtest.sh <dir with patch.diff demo.py> <prop> [more props...]
# 1. confirms in a scratch worktree that the patch applies, the 66 tests pass, the demo passes on the clean tree and fails
#    on the modified one;  2. applies the patch to /repo, runs bin/check <prop> --tier quick, reverts /repo.
D=$(cd "$1" && pwd); shift
W=$(mktemp -d /tmp/seedwt.XXXXXX); rmdir $W
git -C /repo worktree add --detach $W HEAD >/dev/null 2>&1 || { echo "worktree failed"; exit 2; }
trap 'git -C /repo worktree remove --force $W >/dev/null 2>&1; git -C /repo checkout -- . ; git -C /repo clean -fdq' EXIT
(cd /tmp && PYTHONPATH=$W PYTHONDONTWRITEBYTECODE=1 /venv/bin/python $D/demo.py >/dev/null 2>&1); echo "demo on clean tree: rc=$?"
git -C $W apply $D/patch.diff || { echo "patch does not apply"; exit 2; }
(cd $W && PYTHONPATH=$W PYTHONDONTWRITEBYTECODE=1 /venv/bin/python -m pytest -q -p no:cacheprovider --timeout=900 2>&1 | tail -1)
(cd /tmp && PYTHONPATH=$W PYTHONDONTWRITEBYTECODE=1 /venv/bin/python $D/demo.py >/dev/null 2>&1); echo "demo on modified tree: rc=$?"
git -C $W checkout -- . ; git -C $W clean -fdq
git -C /repo apply $D/patch.diff || exit 2
for p in "$@"; do
  (cd /verif && bin/check $p --tier quick 2>&1 | grep -E "VIOLATION|KNOWN|^\[$p" | cut -c1-400)
done
