#!/usr/bin/env python3
"""Re-run every seeded change of /verif/seeded against the checks and record the outcome in seeded/<id>/meta.json.

usage: tools/seedall.py [<seed id> ...]        (default: all)

For each seed: (1) in a scratch worktree of /repo (removed afterwards): the demo passes on the clean tree, the patch
applies, the 66 tests pass with it, the demo fails with it; (2) the patch is applied to /repo's working tree with
`git apply`, `bin/check <prop> --tier quick` is run for the seed's own property and the related ones, and /repo is restored
with `git checkout -- .` (always, also on error).  Nothing is ever committed to /repo.
"""
import json
import os
import re
import subprocess
import sys
import tempfile

VERIF = os.path.dirname(os.path.dirname(os.path.abspath(__file__)))
SEEDED = os.path.join(VERIF, "seeded")
PY = "/venv/bin/python"
RELATED = {
    "C01": ["C02", "C14"], "C02": ["C09", "C12"], "C03": ["C08", "C17"], "C04": ["C08"], "C05": ["C06"], "C06": ["C05"],
    "C07": ["C03", "C09"], "C08": ["C04"], "C09": ["C18", "C06"], "C10": ["C11", "C13", "C15"], "C11": ["C10", "C12"],
    "C12": ["C20", "C13"], "C13": ["C10"], "C14": ["C01"], "C15": ["C10", "C11"], "C16": [], "C17": ["C03"],
    "C18": ["C09"], "C19": [], "C20": ["C12"],
}


def sh(cmd, cwd=None, env=None, timeout=3600):
    e = dict(os.environ)
    e.update(env or {})
    p = subprocess.run(cmd, cwd=cwd, env=e, shell=isinstance(cmd, str), stdout=subprocess.PIPE, stderr=subprocess.STDOUT, timeout=timeout)
    return p.returncode, p.stdout.decode("utf-8", "replace")


def section(notes, title_re):
    m = re.search(r"^##+\s*(%s)[^\n]*\n(.*?)(?=^##+\s|\Z)" % title_re, notes, re.S | re.M | re.I)
    return " ".join(m.group(2).split())[:1500] if m else ""


def one(seed):
    d = os.path.join(SEEDED, seed)
    prop = seed.split("-")[0]
    notes = open(os.path.join(d, "notes.md")).read()
    patch = os.path.join(d, "patch.diff")
    files = sorted(set(re.findall(r"^\+\+\+ b/(\S+)", open(patch).read(), re.M)))
    meta = {"id": seed, "property": prop, "title": notes.splitlines()[0].lstrip("# ").strip(),
            "breaks": section(notes, r"Why it breaks|Why .* breaks|Why this breaks|Effect"),
            "needs_to_manifest": section(notes, r"What it needs|Needs"),
            "files_changed": files, "base_commit": sh("git -C /repo rev-parse --short HEAD")[1].strip()}
    wt = tempfile.mkdtemp(prefix="seedwt.", dir="/tmp")
    os.rmdir(wt)
    try:
        rc, out = sh("git -C /repo worktree add --detach %s HEAD" % wt)
        if rc:
            meta["error"] = "worktree: " + out[-300:]
            return meta
        env = {"PYTHONPATH": wt, "PYTHONDONTWRITEBYTECODE": "1"}
        rc0, _ = sh([PY, os.path.join(d, "demo.py")], cwd="/tmp", env=env, timeout=900)
        rca, out = sh("git -C %s apply %s" % (wt, patch))
        if rca:
            meta["error"] = "patch does not apply: " + out[-300:]
            return meta
        _, tout = sh([PY, "-m", "pytest", "-q", "-p", "no:cacheprovider", "--timeout=900"], cwd=wt, env=env, timeout=1800)
        rc1, _ = sh([PY, os.path.join(d, "demo.py")], cwd="/tmp", env=env, timeout=900)
        meta["demonstration"] = {"cmd": "PYTHONPATH=<tree> /venv/bin/python seeded/%s/demo.py   (cwd /tmp)" % seed,
                                 "exit_on_clean_tree": rc0, "exit_on_modified_tree": rc1,
                                 "existing_tests_on_modified_tree": tout.strip().splitlines()[-1] if tout.strip() else ""}
    finally:
        sh("git -C /repo worktree remove --force %s" % wt)
        sh("rm -rf %s" % wt)
    runs = []
    try:
        rc, out = sh("git -C /repo apply %s" % patch)
        if rc:
            meta["error"] = "patch does not apply to /repo: " + out[-300:]
            return meta
        for p in [prop] + RELATED.get(prop, []):
            rc, out = sh([os.path.join(VERIF, "bin", "check"), p, "--tier", "quick"], cwd=VERIF, timeout=3600)
            lines = out.splitlines()
            viol = [l[:300] for l in lines if l.startswith("VIOLATION")]
            summ = [l for l in lines if l.startswith("[%s " % p)]
            how = "not caught"
            if viol:
                how = "failing input found" if any("no-failing-input-found" not in l for l in viol) else \
                      "proof obligation / correspondence broke, no failing input found"
            runs.append({"check": "bin/check %s --tier quick" % p, "exit": rc, "violations": len(viol), "how": how,
                         "first_violation": viol[0] if viol else None, "summary": summ[-1] if summ else ""})
    finally:
        sh("git -C /repo checkout -- .")
        sh("git -C /repo clean -fdq")
    meta["checks_run"] = runs
    meta["caught_by"] = [r["check"].split()[1] for r in runs if r["violations"]]
    meta["caught_by_own_property_check"] = bool(runs and runs[0]["violations"])
    return meta


def main():
    seeds = sys.argv[1:] or sorted(x for x in os.listdir(SEEDED) if os.path.isdir(os.path.join(SEEDED, x)))
    for s in seeds:
        m = one(s)
        json.dump(m, open(os.path.join(SEEDED, s, "meta.json"), "w"), indent=1, sort_keys=True)
        print("%s own=%s caught_by=%s %s" % (s, m.get("caught_by_own_property_check"), ",".join(m.get("caught_by", [])), m.get("error", "")), flush=True)
    # the unchanged tree must be back
    rc, out = sh("git -C /repo status --short")
    print("repo status after: %r" % out.strip())


if __name__ == "__main__":
    main()
