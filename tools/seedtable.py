#!/usr/bin/env python3
"""Rewrite the table between the SEEDTABLE markers of DESIGN.md from seeded/*/meta.json (written by tools/seedall.py)."""
import json
import os
import re

VERIF = os.path.dirname(os.path.dirname(os.path.abspath(__file__)))
rows = ["| seed | change | needs, in order to manifest | caught by (quick tier) | how |", "|---|---|---|---|---|"]
n = own = anyc = 0
for s in sorted(os.listdir(os.path.join(VERIF, "seeded"))):
    mp = os.path.join(VERIF, "seeded", s, "meta.json")
    if not os.path.exists(mp):
        continue
    m = json.load(open(mp))
    n += 1
    own += bool(m.get("caught_by_own_property_check"))
    anyc += bool(m.get("caught_by"))
    title = re.sub(r"^C\d\d\s*/\s*m\d\s*-+\s*", "", m.get("title", "")).replace("|", "/")
    needs = (m.get("needs_to_manifest") or "").replace("|", "/")
    needs = needs[:230] + ("…" if len(needs) > 230 else "")
    hows = sorted(set(r["how"] for r in m.get("checks_run", []) if r["violations"] and r["check"].split()[1] == m["property"]))
    rows.append("| %s | %s | %s | %s | %s |" % (s, title, needs, ", ".join(m.get("caught_by", [])) or "NOT CAUGHT", "; ".join(hows) or "-"))
rows.append("")
rows.append("%d seeded changes; %d caught by the check of their own property, %d by at least one check." % (n, own, anyc))
p = os.path.join(VERIF, "DESIGN.md")
t = open(p).read()
t = re.sub(r"<!-- SEEDTABLE-BEGIN -->.*?<!-- SEEDTABLE-END -->", "<!-- SEEDTABLE-BEGIN -->\n" + "\n".join(rows).replace("\\", "\\\\") + "\n<!-- SEEDTABLE-END -->", t, flags=re.S)
open(p, "w").write(t)
print(rows[-1])
