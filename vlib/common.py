"""Shared machinery of the mpilot verification checks.

A check (vlib/main.py) does, for one property:
  1. snapshot /repo's working tree (mpilot package) into a temp dir,
  2. regenerate coq/theories/Gen/*.v from that snapshot (translator, drivers/introspect.py),
  3. build the property's Coq cone (make theories/Props/<id>.vo) and collect Print Assumptions,
  4. run the correspondence: impl driver on generated inputs -> cases.v -> coqc -> disagreeing indices,
  5. run the property oracle on the real code,
  6. decide, print VIOLATION / KNOWN-FINDING lines, write evidence/<id>.json.
"""
import fcntl
import hashlib
import json
import os
import re
import shutil
import subprocess
import sys
import tempfile
import time

VERIF = os.path.dirname(os.path.dirname(os.path.abspath(__file__)))
REPO = os.environ.get("VERIF_REPO", "/repo")
PY = "/venv/bin/python"
COQ = os.path.join(VERIF, "coq")
GEN = os.path.join(COQ, "theories", "Gen")
DRIVERS = os.path.join(VERIF, "drivers")
NPROC = 16

BAN_RE = re.compile(
    r"\b(Admitted|admit|Axiom|Axioms|Parameter|Parameters|Conjecture|Conjectures|Admit Obligations)\b"
    r"|Unset\s+Guard|bypass_check|type-in-type|impredicative-set|Unset\s+Positivity|Unset\s+Universe"
)


class Ctx(object):
    def __init__(self, prop, tier, seed):
        self.prop = prop
        self.tier = tier
        self.seed = seed
        self.t0 = time.time()
        self.tmp = tempfile.mkdtemp(prefix="mpverif-%s-" % prop)
        self.snap = os.path.join(self.tmp, "snap")
        self.work = os.path.join(self.tmp, "work")
        os.makedirs(self.work)
        self.notes = []

    def cleanup(self):
        shutil.rmtree(self.tmp, ignore_errors=True)

    def scale(self, quick, thorough):
        return thorough if self.tier == "thorough" else quick


def snapshot(ctx):
    """Copy the mpilot package (and the test helper library) of /repo's *working tree*."""
    os.makedirs(ctx.snap)
    ign = shutil.ignore_patterns("__pycache__", "*.pyc", "parser.out")
    shutil.copytree(os.path.join(REPO, "mpilot"), os.path.join(ctx.snap, "mpilot"), ignore=ign)
    if os.path.isdir(os.path.join(REPO, "tests")):
        shutil.copytree(os.path.join(REPO, "tests"), os.path.join(ctx.snap, "tests"), ignore=ign)
    h = hashlib.sha256()
    for root, dirs, files in sorted(os.walk(os.path.join(ctx.snap, "mpilot"))):
        dirs.sort()
        for f in sorted(files):
            p = os.path.join(root, f)
            h.update(os.path.relpath(p, ctx.snap).encode())
            with open(p, "rb") as fh:
                h.update(fh.read())
    ctx.snap_hash = h.hexdigest()[:16]
    return ctx.snap


def driver_env(ctx, extra=None):
    env = dict(os.environ)
    env.update(
        {
            "PYTHONPATH": ctx.snap + os.pathsep + DRIVERS,
            "PYTHONHASHSEED": "0",
            "PYTHONDONTWRITEBYTECODE": "1",
            "VERIF_SNAP": ctx.snap,
            "VERIF_SEED": str(ctx.seed),
            "VERIF_TIER": ctx.tier,
            "VERIF_DIR": VERIF,
            "MPLBACKEND": "Agg",
        }
    )
    if extra:
        env.update(extra)
    return env


def run_driver(ctx, script, args=(), timeout=1800, extra_env=None, stdin=None):
    """Run drivers/<script> under the snapshot; returns (rc, stdout, stderr)."""
    cmd = [PY, os.path.join(DRIVERS, script)] + [str(a) for a in args]
    try:
        p = subprocess.run(
            cmd,
            cwd=ctx.work,
            env=driver_env(ctx, extra_env),
            input=stdin,
            stdout=subprocess.PIPE,
            stderr=subprocess.PIPE,
            timeout=timeout,
            universal_newlines=True,
        )
        return p.returncode, p.stdout, p.stderr
    except subprocess.TimeoutExpired as ex:
        return 124, ex.stdout or "", "TIMEOUT after %ss: %s" % (timeout, " ".join(cmd))


def run_driver_json(ctx, script, args=(), timeout=1800, extra_env=None):
    """Driver that writes a JSON document to the file given as its first argument."""
    out = os.path.join(ctx.work, "%s.%d.json" % (os.path.basename(script), int(time.time() * 1000) % 100000))
    rc, so, se = run_driver(ctx, script, [out] + list(args), timeout=timeout, extra_env=extra_env)
    if rc != 0 or not os.path.exists(out):
        return None, "driver %s failed rc=%s\nSTDOUT:\n%s\nSTDERR:\n%s" % (script, rc, so[-4000:], se[-4000:])
    with open(out) as fh:
        return json.load(fh), se


class BuildLock(object):
    def __enter__(self):
        self.fh = open(os.path.join(COQ, ".build.lock"), "w")
        fcntl.flock(self.fh, fcntl.LOCK_EX)
        return self

    def __exit__(self, *a):
        fcntl.flock(self.fh, fcntl.LOCK_UN)
        self.fh.close()


def regen(ctx):
    """Run the translator on the snapshot and rewrite Gen/*.v whose content changed.
    Returns (ok, message, list of changed files)."""
    outdir = os.path.join(ctx.work, "gen")
    os.makedirs(outdir, exist_ok=True)
    rc, so, se = run_driver(ctx, "introspect.py", [outdir], timeout=600)
    if rc != 0:
        return False, "translator failed (rc=%s):\n%s\n%s" % (rc, so[-3000:], se[-3000:]), []
    changed = []
    os.makedirs(GEN, exist_ok=True)
    for f in sorted(os.listdir(outdir)):
        if not f.endswith(".v"):
            continue
        new = open(os.path.join(outdir, f)).read()
        dst = os.path.join(GEN, f)
        old = open(dst).read() if os.path.exists(dst) else None
        if old != new:
            with open(dst, "w") as fh:
                fh.write(new)
            changed.append(f)
    return True, so, changed


def ensure_makefile():
    mk = os.path.join(COQ, "Makefile")
    cp = os.path.join(COQ, "_CoqProject")
    if not os.path.exists(mk) or os.path.getmtime(mk) < os.path.getmtime(cp):
        subprocess.check_call(["coq_makefile", "-f", "_CoqProject", "-o", "Makefile"], cwd=COQ,
                              stdout=subprocess.DEVNULL)


def make(targets, timeout=1500, force=()):
    """make the given .vo targets (full .vo build). `force`: source files to touch first so that
    their Print Assumptions output is produced again. Returns (ok, log)."""
    ensure_makefile()
    for f in force:
        p = os.path.join(COQ, f)
        if os.path.exists(p):
            os.utime(p, None)
    cmd = ["make", "-j%d" % NPROC] + list(targets)
    try:
        p = subprocess.run(["timeout", str(timeout)] + cmd, cwd=COQ, stdout=subprocess.PIPE,
                           stderr=subprocess.STDOUT, universal_newlines=True)
        return p.returncode == 0, p.stdout
    except Exception as ex:  # pragma: no cover
        return False, "make failed to start: %r" % (ex,)


def coqc_file(path, timeout=900):
    cmd = ["timeout", str(timeout), "coqc", "-noglob", "-Q", os.path.join(COQ, "theories"), "MP", path]
    p = subprocess.run(cmd, cwd=os.path.dirname(path), stdout=subprocess.PIPE, stderr=subprocess.STDOUT,
                       universal_newlines=True)
    return p.returncode, p.stdout


def coqc_many(paths, timeout=900):
    """Compile several generated case files in parallel; returns {path: (rc, output)}."""
    procs = []
    results = {}
    pending = list(paths)
    running = []
    while pending or running:
        while pending and len(running) < NPROC:
            path = pending.pop(0)
            cmd = ["timeout", str(timeout), "coqc", "-noglob", "-Q", os.path.join(COQ, "theories"), "MP", path]
            pr = subprocess.Popen(cmd, cwd=os.path.dirname(path), stdout=subprocess.PIPE,
                                  stderr=subprocess.STDOUT, universal_newlines=True)
            running.append((path, pr))
        still = []
        for path, pr in running:
            if pr.poll() is None:
                still.append((path, pr))
            else:
                results[path] = (pr.returncode, pr.stdout.read())
        running = still
        if running:
            time.sleep(0.05)
    return results


FAIL_RE = re.compile(r"=\s*(\[[^\]]*\])\s*:\s*list nat", re.S)


def parse_failing(output):
    """All `= [..] : list nat` answers printed by Eval vm_compute, in order."""
    res = []
    for m in FAIL_RE.finditer(output):
        body = m.group(1).strip()[1:-1].strip()
        if not body:
            res.append([])
        else:
            res.append([int(x.strip().replace("%nat", "")) for x in body.split(";") if x.strip()])
    return res


def assumptions_from_log(log):
    """Extract the answers of Print Assumptions from a coqc/make log."""
    out = []
    lines = log.splitlines()
    i = 0
    while i < len(lines):
        ln = lines[i]
        if ln.startswith("Closed under the global context"):
            out.append("Closed under the global context")
        elif ln.startswith("Axioms:"):
            blk = [ln]
            i += 1
            while i < len(lines) and (lines[i].startswith(" ") or lines[i].strip() == "" or ":" in lines[i][:60]) \
                    and not lines[i].startswith("COQC") and not lines[i].startswith("Closed"):
                if lines[i].strip():
                    blk.append(lines[i])
                i += 1
            out.append("\n".join(blk))
            continue
        i += 1
    return out


def count_statements(vpath):
    txt = open(vpath).read()
    txt = re.sub(r"\(\*.*?\*\)", "", txt, flags=re.S)
    return re.findall(r"^\s*(?:Theorem|Lemma|Corollary|Example|Fact|Proposition)\s+([A-Za-z0-9_']+)", txt, flags=re.M)


def scan_banned():
    """The development must contain no Admitted/Axiom/... ; returns offending (file, line, text)."""
    bad = []
    for root, dirs, files in os.walk(os.path.join(COQ, "theories")):
        for f in files:
            if f.endswith(".v"):
                p = os.path.join(root, f)
                txt = open(p).read()
                nocom = re.sub(r"\(\*.*?\*\)", lambda m: "\n" * m.group(0).count("\n"), txt, flags=re.S)
                for n, ln in enumerate(nocom.splitlines(), 1):
                    ln = re.sub(r'"[^"]*"', '""', ln)   # string literals are data, not vernacular
                    if BAN_RE.search(ln):
                        bad.append((os.path.relpath(p, VERIF), n, ln.strip()))
    return bad


def load_known():
    p = os.path.join(VERIF, "known_findings.json")
    if not os.path.exists(p):
        return []
    with open(p) as fh:
        return json.load(fh).get("findings", [])


# ---------- Coq term printers ----------

def coq_string(s):
    """A Coq string literal; non printable / non ASCII characters are not allowed here."""
    for ch in s:
        if ord(ch) < 32 or ord(ch) > 126:
            raise ValueError("coq_string: non printable character in %r" % (s,))
    return '"' + s.replace('"', '""') + '"'


def coq_text(s):
    """Text as list N of code points (Base/Text.v)."""
    return "[" + "; ".join(str(ord(c)) for c in s) + "]%N"


def coq_list(items):
    return "[" + "; ".join(items) + "]"


def coq_bool(b):
    return "true" if b else "false"


def coq_Z(n):
    return "(%d)%%Z" % n


def coq_Q(fr):
    """fr: fractions.Fraction -> Coq Q literal."""
    if fr.numerator >= 0:
        return "(%d#%d)" % (fr.numerator, fr.denominator)
    return "(-%d#%d)" % (-fr.numerator, fr.denominator)


def coq_option(x):
    return "None" if x is None else "(Some %s)" % x


def check_case_files(ctx, files, label, describe=None, timeout=900):
    """files: [{'path','first','count'}] generated Coq case files, each ending in one or more
    `Eval vm_compute in (failing ...)`.  Returns (corr summary dict, list of correspondence failures)."""
    res = coqc_many([f["path"] for f in files], timeout=timeout)
    total, failures = 0, []
    for f in files:
        rc, out = res[f["path"]]
        total += f["count"]
        answers = parse_failing(out)
        if rc != 0 or not answers:
            failures.append({"what": "%s: generated case file did not evaluate (rc=%s): %s" % (
                label, rc, out.strip()[-600:]), "case": os.path.basename(f["path"])})
            continue
        for ai, idxs in enumerate(answers):
            for i in idxs:
                gi = f["first"] + i
                failures.append({"what": "%s: model and implementation disagree on generated case #%d%s" % (
                    label, gi, (" (check %d)" % ai) if len(answers) > 1 else ""),
                    "case": describe(gi, ai) if describe else gi})
    return {"name": label, "cases": total, "disagreements": len(failures)}, failures
