import os, sys
sys.path.insert(0, os.path.dirname(os.path.abspath(__file__)))
import common

ctx = common.Ctx("SETUP", "quick", 0)
try:
    common.snapshot(ctx)
    with common.BuildLock():
        ok, msg, changed = common.regen(ctx)
        print(msg)
        if not ok:
            sys.exit(1)
        ok, log = common.make([], timeout=3000)
        print(log[-3000:])
        sys.exit(0 if ok else 1)
finally:
    ctx.cleanup()
