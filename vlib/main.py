#!/venv/bin/python
"""bin/check <id> [--tier quick|thorough] [--replay FILE]   (see common.py for the steps)"""
import argparse
import importlib
import json
import os
import sys
import time
import traceback

sys.path.insert(0, os.path.dirname(os.path.abspath(__file__)))
import common  # noqa: E402
from common import VERIF, COQ  # noqa: E402

TRUSTED_BASE = [
    "Coq 8.16.1 kernel + vm_compute (no native_compute); no Axiom/Parameter/Admitted in the development (grep on every run)",
    "translator drivers/introspect.py (live introspection + ast of the /repo snapshot -> theories/Gen/*.v), fail-closed",
    "correspondence harness (generators, canonicalisation, Coq term printer) run under CPython 3.12.1/numpy 1.26.4/PLY 3.11",
    "model is hand-written Gallina mirroring the code; tied to /repo by regenerated tables and by differential runs on every check",
]


def write_replay(prop, name, data):
    d = os.path.join(VERIF, "replays")
    os.makedirs(d, exist_ok=True)
    p = os.path.join(d, "%s-%s.json" % (prop, name))
    with open(p, "w") as fh:
        json.dump(data, fh, indent=1, sort_keys=True, default=str)
    return p


def main():
    ap = argparse.ArgumentParser()
    ap.add_argument("prop")
    ap.add_argument("--tier", default=os.environ.get("VERIF_TIER", "quick"))
    ap.add_argument("--replay", default=None)
    ap.add_argument("--keep", action="store_true")
    a = ap.parse_args()
    tier = a.tier if a.tier in ("quick", "thorough") else "quick"
    try:
        seed = int(os.environ.get("VERIF_SEED", "0") or 0)
    except ValueError:
        seed = 0
    prop = a.prop.upper()
    mod = importlib.import_module("props.%s" % prop.lower())
    ctx = common.Ctx(prop, tier, seed)
    rc = 2
    try:
        rc = check(ctx, mod, a.replay)
    except Exception:
        traceback.print_exc()
        # infrastructure failure: reported as a violation naming the step, never silently ignored
        rp = write_replay(prop, "infrastructure", {"error": traceback.format_exc()})
        print("VIOLATION property=%s replay=%s no-failing-input-found" % (prop, rp))
        write_evidence(ctx, mod, None, {"evaluations": 0}, 1, ["infrastructure error, see replay"])
        rc = 1
    finally:
        if not a.keep:
            ctx.cleanup()
    sys.exit(rc)


def build_proofs(ctx, mod):
    """Steps 1-2: translator + make of the property's cone."""
    info = {"ok": False, "log": "", "assumptions": [], "statements": [], "changed_gen": [], "broken": None}
    with common.BuildLock():
        ok, msg, changed = common.regen(ctx)
        info["changed_gen"] = changed
        if not ok:
            info["log"] = msg
            info["broken"] = "translator (drivers/introspect.py) failed on the snapshot"
            return info
        info["gen_summary"] = msg.strip().splitlines()[-5:]
        props_v = "theories/Props/%s.v" % ctx.prop
        # the property's cone plus the comparison functions the generated case files import
        corr = sorted("theories/Corr/" + f + "o" for f in os.listdir(os.path.join(COQ, "theories", "Corr")) if f.endswith(".v"))
        ok, log = common.make([props_v + "o"] + corr, force=[props_v])
        info["log"] = log
        info["ok"] = ok
    info["statements"] = common.count_statements(os.path.join(COQ, props_v))
    info["assumptions"] = common.assumptions_from_log(log)
    if not ok:
        # name the file / lemma that stopped checking
        import re
        m = re.search(r'File "([^"]+)", line (\d+)', log)
        where = "%s line %s" % (m.group(1), m.group(2)) if m else "unknown location"
        tail = "\n".join(log.strip().splitlines()[-25:])
        info["broken"] = "Coq build of %s failed at %s\n%s" % (props_v, where, tail)
    bad = common.scan_banned()
    if bad:
        info["ok"] = False
        info["broken"] = "banned construct in development: %r" % (bad[:5],)
    if info["ok"] and ctx.tier == "thorough":
        # independent re-check of the compiled cone with coqchk, and the axioms it relies on
        import subprocess
        try:
            pr = subprocess.run(["coqchk", "-o", "-silent", "-Q", "theories", "MP", "MP.Props.%s" % ctx.prop], cwd=COQ,
                                stdout=subprocess.PIPE, stderr=subprocess.STDOUT, timeout=3000)
            out = pr.stdout.decode("utf-8", "replace")
            summ = out[out.find("CONTEXT SUMMARY"):] if "CONTEXT SUMMARY" in out else out[-800:]
            info["coqchk"] = " ".join(summ.split())[:600]
            if pr.returncode != 0:
                info["ok"] = False
                info["broken"] = "coqchk rejected the compiled cone of Props/%s: %s" % (ctx.prop, out[-600:])
        except subprocess.TimeoutExpired:
            info["ok"] = False
            info["broken"] = "coqchk timed out on Props/%s" % ctx.prop
    return info


def check(ctx, mod, replay):
    prop = ctx.prop
    common.snapshot(ctx)
    want = None
    if replay:
        # a replay re-runs the check that wrote the file (same tier, same PRNG seed: the generators then produce the same
        # inputs) on /repo's CURRENT tree and says whether the recorded violation is still there
        want = json.load(open(replay))
        if hasattr(mod, "replay"):
            return mod.replay(ctx, want)
        ctx.tier = want.get("tier", ctx.tier)
        ctx.seed = int(want.get("seed", ctx.seed))
        os.environ["VERIF_TIER"] = ctx.tier
    proof = build_proofs(ctx, mod)
    res = mod.run(ctx, proof)
    if want is not None:
        sigs = [f["sig"] for f in res.get("oracle_failures", [])]
        broken_now = (not proof["ok"]) or bool(res.get("corr_failures")) or bool(res.get("errors"))
        if want.get("kind") == "failing-input":
            hit = [f for f in res.get("oracle_failures", []) if f["sig"] == want.get("sig")]
            print("replay of %s (%s, tier %s, seed %s): %s" % (os.path.basename(replay), want.get("sig"), ctx.tier, ctx.seed,
                  "REPRODUCED -- %s" % hit[0]["what"][:300] if hit else "not reproduced on the current tree (%d other failures)" % len(sigs)))
            if hit:
                print("VIOLATION property=%s replay=%s" % (prop, replay))
            return 1 if hit else 0
        print("replay of %s (no failing input was recorded; what no longer checked: %s): %s" % (
            os.path.basename(replay), "; ".join(str(b.get("kind")) for b in want.get("no_longer_checks", []))[:200],
            "STILL BROKEN" if broken_now else "everything checks on the current tree"))
        if broken_now:
            print("VIOLATION property=%s replay=%s no-failing-input-found" % (prop, replay))
        return 1 if broken_now else 0
    known = [k for k in common.load_known() if k.get("property") == prop and k.get("status") == "open"]
    known_sigs = {k["sig"]: k for k in known}
    violations = 0
    lines = []
    seen_known = set()
    unknown = []
    for f in res.get("oracle_failures", []):
        if f["sig"] in known_sigs:
            if f["sig"] not in seen_known:
                seen_known.add(f["sig"])
                lines.append("KNOWN-FINDING: property=%s %s" % (prop, known_sigs[f["sig"]]["what"]))
        else:
            unknown.append(f)
    reported = set()
    for f in unknown:
        if f["sig"] in reported:
            continue
        reported.add(f["sig"])
        if len(reported) > 8:
            break
        rp = write_replay(prop, "v%d" % len(reported), {
            "property": prop, "kind": "failing-input", "sig": f["sig"], "what": f["what"],
            "input": f.get("replay"), "rerun": "cd /verif && VERIF_SEED=%d bin/check %s --tier %s" % (ctx.seed, prop, ctx.tier),
            "tier": ctx.tier, "seed": ctx.seed, "snapshot_hash": ctx.snap_hash})
        lines.append("VIOLATION property=%s replay=%s" % (prop, rp))
        violations += 1
    broken = []
    if not proof["ok"]:
        broken.append({"kind": "proof", "what": proof["broken"], "changed_gen": proof["changed_gen"]})
    for c in res.get("corr_failures", []):
        broken.append({"kind": "correspondence", "what": c.get("what"), "case": c.get("case")})
    for e in res.get("errors", []):
        broken.append({"kind": "infrastructure", "what": e})
    if broken and not unknown:
        # the property is no longer shown to hold; the search (oracle above, plus the module's
        # enlarged search when it has one) found no failing input of the property itself
        extra = []
        if hasattr(mod, "search"):
            extra = [f for f in mod.search(ctx, proof, res) if f["sig"] not in known_sigs]
        if extra:
            f = extra[0]
            rp = write_replay(prop, "v1", {"property": prop, "kind": "failing-input", "sig": f["sig"],
                                           "what": f["what"], "input": f.get("replay"), "broken": broken[:3],
                                           "tier": ctx.tier, "seed": ctx.seed, "snapshot_hash": ctx.snap_hash})
            lines.append("VIOLATION property=%s replay=%s" % (prop, rp))
        else:
            rp = write_replay(prop, "unproved", {"property": prop, "kind": "no-failing-input-found", "tier": ctx.tier, "seed": ctx.seed,
                                                 "no_longer_checks": broken[:6], "snapshot_hash": ctx.snap_hash})
            lines.append("VIOLATION property=%s replay=%s no-failing-input-found" % (prop, rp))
        violations += 1
    for ln in lines:
        print(ln)
    write_evidence(ctx, mod, proof, res, violations, [ln for ln in lines if ln.startswith("KNOWN")])
    wall = time.time() - ctx.t0
    print("[%s %s] proof=%s statements=%d corr_cases=%s corr_fail=%d oracle_fail=%d known=%d violations=%d wall=%.1fs" % (
        prop, ctx.tier, "ok" if proof["ok"] else "BROKEN", len(proof["statements"]), res.get("evaluations"),
        len(res.get("corr_failures", [])), len(res.get("oracle_failures", [])), len(seen_known), violations, wall))
    return 1 if violations else 0


def write_evidence(ctx, mod, proof, res, violations, known_lines):
    prop = ctx.prop
    nst = len(proof["statements"]) if proof else 0
    cov = {
        "obligations": max(nst, 1),
        "discharged": nst if (proof and proof["ok"]) else 0,
        "checker_cmd": "make -C /verif/coq -j16 theories/Props/%s.vo  (coq_makefile, full .vo build, Coq 8.16.1) ; "
                       "coqc -Q coq/theories MP <generated cases>.v" % prop,
        "trusted_base": TRUSTED_BASE + list(getattr(mod, "TRUSTED", [])) + (
            ["Print Assumptions: " + " | ".join(sorted(set(proof["assumptions"])))] if proof else []),
        "theorems": proof["statements"] if proof else [],
        "print_assumptions": proof["assumptions"] if proof else [],
        "gen_files_changed_this_run": proof["changed_gen"] if proof else [],
        "evaluations": int(res.get("evaluations", 0)),
        "distinct_nontrivial": int(res.get("distinct_nontrivial", 0)),
        "rule": res.get("rule", getattr(mod, "RULE", "")),
        "samples": res.get("samples", [])[:3] or ["(none)"],
        "correspondence": res.get("corr", []),
        "input_distribution": res.get("distribution", {}),
        "known_findings_reported": known_lines,
        "snapshot_hash": getattr(ctx, "snap_hash", None),
    }
    if not (proof and proof["ok"]):
        # a broken proof discharges nothing: fall back to the exploration-style keys of the schema
        del cov["discharged"]
        cov["proof_broken"] = (proof or {}).get("broken") or "not built"
    if res.get("exhaustive") is not None:
        cov["exhaustive"] = bool(res["exhaustive"])
    cov.update(res.get("extra", {}))
    if proof and proof.get("coqchk"):
        cov["coqchk"] = proof["coqchk"]
    ev = {
        "property_id": prop,
        "tier": ctx.tier,
        "seed": ctx.seed,
        "level": "proof",
        "coverage": cov,
        "assumptions": list(getattr(mod, "ASSUMPTIONS", [])),
        "wall_s": round(time.time() - ctx.t0, 2),
        "violations": violations,
    }
    os.makedirs(os.path.join(VERIF, "evidence"), exist_ok=True)
    with open(os.path.join(VERIF, "evidence", "%s.json" % prop), "w") as fh:
        json.dump(ev, fh, indent=1, sort_keys=True, default=str)


if __name__ == "__main__":
    main()
