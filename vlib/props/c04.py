"""C04 -- fuzzy results always lie in [-1, +1]."""
from props import cells

RULE = ('the 14 fuzzy-producing commands with thresholds, weights, category, curve and z-score values far outside [-1, 1] (weights up to 100, values up to 16x the lattice), masked and unmasked arrays of rank 1-3; unmasked result cells checked against [-1, 1] exactly and against the Coq model. non-trivial = distinct case (every case drives parameters or inputs out of range)')
RULE += (' Every stream also has a stratified part: each command once per unusual element type (uint64 as the NetCDF reader returns for Positive Integer, uint8, int16), weighted commands with a weight of exactly 0 next to a cell missing only in that input, nine to twelve input layers, the same result mentioned twice, inputs re-laid in memory (Fortran order, transposed / reversed / strided views), B written before A, a Metadata argument on every third run. Fuzzy inputs are checked again after their consumer has run; a floating-point stream with decimal data lying on control points.')
TRUSTED = ["exact reference evaluator in drivers/cells_common.py (written from the property statements and the user documentation)",
           "numpy.ma.std enters the model as the oracle sigma (checked against the exact variance to 2^-20 relative)"]
ASSUMPTIONS = ["exact rational arithmetic; IEEE rounding is absorbed by the tolerance 2^-36 relative; nan/inf results are not printable into Coq and are judged by the oracle only"]


def run(ctx, proof):
    return cells.run_cells(ctx, proof, "C04", 400, 8000, RULE)
