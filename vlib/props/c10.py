"""C10 -- parsing delivers exactly what was written, regardless of layout."""
import common

RULE = ("abstract programs (1-5 commands, 0-4 arguments, integers, decimals incl. exponent forms, quoted strings with quotes, "
        "backslashes, escapes and non-ASCII text, unquoted identifiers and path-like strings, lists nested up to 3, tuples) rendered "
        "with random layout: blanks/tabs at token boundaries, LF or CRLF line breaks and blank lines between tokens, comment lines "
        "and trailing comments, trailing commas, single/double quoting, raw or escaped line breaks inside quotes; the renderer "
        "records the expected result; plus single-character/-token corruptions of valid renderings, random token soups, and "
        "unquoted multi-word values; result (or SyntaxError) compared with the expectation and with the Coq lexer + LR driver over "
        "the regenerated tables + semantic actions, line numbers included. non-trivial = distinct text with >= 2 lines or a non-default layout choice and >= 1 argument")
TRUSTED = ["Python's re semantics for the 16 token regexes (ordered alternation, greedy with back-off) is modelled by hand-written scanners, tied by the rule/regex obligation and the correspondence",
           "str(float) for numerals inside unquoted text is an oracle; \\N{...} escapes are outside the model"]
ASSUMPTIONS = ["the renderer quotes text with a colon inside lists (there `a:b` is a tuple pair) and puts no blank after a path-like unquoted value (the PLAIN_STRING token would swallow it)"]
PROP = "C10"


def run(ctx, proof):
    n = ctx.scale(300, 6000)
    data, err = common.run_driver_json(ctx, "parse_driver.py", [PROP, n], timeout=3000)
    if data is None:
        return {"errors": [err], "evaluations": 0}
    descr = data["descr"]
    corr, cfail = ({"name": "parse", "cases": 0, "skipped": "proof cone did not build"}, [])
    if proof["ok"]:
        corr, cfail = common.check_case_files(ctx, data["files"], "parse (Model/Lexer.v + LR driver over Gen/GenGrammar.v + semantic actions) vs Parser.parse",
                                              describe=lambda i, a: descr[i])
    extra = {"failures_seen_for_other_properties": data.get("other_property_failures", [])}
    if proof["ok"] and data.get("surf_files"):
        # not a comparison: how many accepted renderings are instances of the layout theorem (every hypothesis evaluated in Coq)
        sd = data.get("surf_descr", [])
        c3, f3 = common.check_case_files(ctx, data["surf_files"], "instances of C10_layout_irrelevance", describe=lambda i, a: sd[i] if i < len(sd) else i)
        broken = [f for f in f3 if "did not evaluate" in f["what"]]
        cfail += broken
        extra["renderings_that_are_instances_of_C10_layout_irrelevance"] = c3["cases"] - (len(f3) - len(broken))
        extra["renderings_in_the_surface_family_by_shape"] = c3["cases"]
        extra["in_the_family_by_shape_but_a_hypothesis_fails_samples"] = [f["case"] for f in f3 if f not in broken][:4]
        extra["accepted_renderings"] = data["distribution"].get("accepted_renderings")
    corrs = [corr]
    if proof["ok"] and data.get("obj_files"):
        od = data["obj_descr"]
        c4, f4 = common.check_case_files(ctx, data["obj_files"], "parse_obj with the regenerated resets (Model/ParserObj.v) vs every step of one Parser object's life (state before, text, result, state after)",
                                         describe=lambda i, a: od[i] if i < len(od) else i)
        corrs.append(c4)
        cfail += f4
    if proof["ok"] and data.get("cli_files"):
        cd = data["cli_descr"]
        c5, f5 = common.check_case_files(ctx, data["cli_files"], "context (Model/Cli.v: lines of the file, lines shown, line marked) vs the stderr of the command-line tool",
                                         describe=lambda i, a: cd[i] if i < len(cd) else i)
        corrs.append(c5)
        cfail += f5
    return {"corr": corrs, "corr_failures": cfail, "oracle_failures": data["oracle_failures"],
            "evaluations": data["evaluations"], "distinct_nontrivial": data["distinct_nontrivial"],
            "rule": RULE, "samples": data["samples"], "distribution": data["distribution"],
            "extra": extra}
