"""C14 -- cyclic models are rejected, never silently skipped."""
import common
from props import c01

RULE = ("ALL digraphs (self-loops allowed) on 1-3 commands (quick) / 1-4 commands (thorough), references through "
        "direct parameters, lists or a mix, random file order, plus random digraphs on 4-8 commands; outcome class, "
        "executed set and the command whose line the error carries compared with the Coq model. "
        "non-trivial = distinct program that contains a cycle")
RULE += (' Cyclic graphs include repeated mentions of one result in a list and a loop behind a 260-command chain listed from either end (under a lowered recursion limit).')
TRUSTED = c01.TRUSTED
ASSUMPTIONS = ["interpreter recursion limit lowered to 400 in the harness process only (cheap observation of runaway recursion)"]


def run(ctx, proof):
    old = c01.MODE
    c01.MODE = "cyc"
    try:
        n = ctx.scale(900, 140000)
        saved = ctx.scale
        ctx.scale = lambda q, t: n
        res = c01.run(ctx, proof)
        ctx.scale = saved
    finally:
        c01.MODE = old
    res["rule"] = RULE
    res["exhaustive"] = True
    return res
