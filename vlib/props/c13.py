"""C13 -- only declared error types escape, and the CLI reports them."""
import common
from props import c12

RULE = ("the C12 stream (command x parameter x raw-kind matrix, valid and single-fault models) plus single-character corruptions "
        "of valid files, quoted strings with complete/truncated/illegal escapes and non-ASCII text, odd list/tuple/number "
        "expressions (mixed lists, 5000-digit integers, 60-deep nesting), and CSV content faults (empty file, header only, "
        "missing column, ragged rows, blank lines, non-numeric cells, columns of different length); the exception type at the "
        "from_source()/run() boundary is recorded, and a sample of the models plus every CSV fault is run through the "
        "command-line entry point (exit status, stderr). non-trivial = distinct faulted, kind-confused or corrupted input")
TRUSTED = c12.TRUSTED
ASSUMPTIONS = ["interpreter-level failures (RecursionError on ~1000-deep lists, MemoryError) and undecodable command-file bytes are outside the model"]


def run(ctx, proof):
    old = c12.PROP
    c12.PROP = "C13"
    try:
        res = c12.run(ctx, proof)
    finally:
        c12.PROP = old
    res["rule"] = RULE
    return res
