"""C13 -- only declared error types escape, and the CLI reports them."""
import common
from props import c12

RULE = ("the C12 stream (command x parameter x raw-kind matrix, valid and single-fault models) plus the parser stream of C10 (valid "
        "renderings, single-character and stray-token corruptions incl. stray numerals, token soups, unquoted multi-word text: anything "
        "but SyntaxError leaving Parser.parse is a failure) plus single-character corruptions of valid files, quoted strings with complete/truncated/illegal escapes and non-ASCII text, odd list/tuple/number "
        "expressions (mixed lists, 5000-digit integers, 60-deep nesting), and CSV content faults (empty file, header only, "
        "missing column, ragged rows, blank lines, non-numeric cells, columns of different length); the exception type at the "
        "from_source()/run() boundary is recorded, and a sample of the models plus every CSV fault is run through the "
        "command-line entry point (exit status, stderr). non-trivial = distinct faulted, kind-confused or corrupted input")
RULE += (" Also EEMS 2.0 forms whose naming arguments are odd values, Command objects of another Program as references, output locations whose folder cannot be created, working_dir=''.")
TRUSTED = c12.TRUSTED
ASSUMPTIONS = ["interpreter-level failures (RecursionError on ~1000-deep lists, MemoryError) and undecodable command-file bytes are outside the model"]


def run(ctx, proof):
    old = c12.PROP
    c12.PROP = "C13"
    try:
        res = c12.run(ctx, proof)
    finally:
        c12.PROP = old
    # the parser side: the C10 stream (valid renderings, single-character and stray-token corruptions, token soups, unquoted
    # multi-word text) -- whatever leaves Parser.parse other than SyntaxError is recorded by the parse driver as C13:escape:*
    n = ctx.scale(300, 4000)
    data, err = common.run_driver_json(ctx, "parse_driver.py", ["C13", n], timeout=3000)
    if data is None:
        res.setdefault("errors", []).append(err)
    else:
        res["oracle_failures"] = list(res.get("oracle_failures", [])) + data["oracle_failures"]
        res["evaluations"] = int(res.get("evaluations", 0)) + data["evaluations"]
        res.setdefault("distribution", {})["parser_stream"] = {k: data["distribution"].get(k) for k in ("valid", "corrupted", "soup", "multiword", "accepted", "rejected")}
    res["rule"] = RULE
    return res
