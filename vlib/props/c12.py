"""C12 -- models are accepted iff well-formed, and rejected before any side effect."""
import common

RULE = ("(1) the matrix of all 33 built-in CSV-library commands x each of their parameters x 18 raw kinds (number, decimal, plain and "
        "quoted text, number list, result list, fuzzy list, tuple, empty list, boolean, non-fuzzy / fuzzy / writer / missing result "
        "name, file name, nested list, data-type name, negative number) in a minimal valid model (sampled in the quick tier, "
        "exhaustive in the thorough tier); (2) random valid EEMS models (C02 generator plus CSV writer and PrintVars) in shuffled "
        "file order; (3) the same models with one fault injected at a random position (unknown command, duplicate result, missing "
        "required argument, undeclared argument, wrong-kind value, missing result, fuzzy/non-fuzzy mismatch, non-data result as "
        "data, missing input file). Observed: exception class/line/names, execute() log and new files at the moment of rejection; "
        "compared with the Coq loader model on the parsed nodes. non-trivial = distinct faulted or kind-confused model")
RULE += (' Histories: a model that ran is edited through the API (a producer removed) and run again; an input file deleted between two runs; an add_command that is rejected, caught and followed by run(); faulted models write into folders that do not exist (folders are part of the file-system snapshot).')
TRUSTED = ["drivers/loader_driver.py: fault injector with its expected error class per fault (written from the property statement)"]
ASSUMPTIONS = ["CSV library set; argument names unique within a command; ASCII text"]
PROP = "C12"


def run(ctx, proof):
    n = ctx.scale(700, 9000)
    data, err = common.run_driver_json(ctx, "loader_driver.py", [PROP, n], timeout=3000)
    if data is None:
        return {"errors": [err], "evaluations": 0}
    descr = data["descr"]
    corr, cfail = ({"name": "load_and_prepass", "cases": 0, "skipped": "proof cone did not build"}, [])
    if proof["ok"]:
        corr, cfail = common.check_case_files(ctx, data["files"], "load_and_prepass (Model/Loader.v) vs Program.from_source + pre-pass of Program.run",
                                              describe=lambda i, a: descr[i])
    return {"corr": [corr], "corr_failures": cfail, "oracle_failures": data["oracle_failures"],
            "evaluations": data["evaluations"], "distinct_nontrivial": data["distinct_nontrivial"],
            "rule": RULE, "samples": data["samples"], "distribution": data["distribution"],
            "extra": {"failures_seen_for_other_properties": data.get("other_property_failures", [])}}
