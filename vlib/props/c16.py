"""C16 -- EEMS 2.0 command files translate to equivalent MPilot programs."""
import common

RULE = ("random EEMS 2.0 / MPilot / mixed command files parsed and loaded by the real code "
        "(convert_eems2_commands recorded) and compared with the Coq model; plus random valid typed v2 models "
        "over a CSV table compared with their documented v3 translation (structure and results). "
        "non-trivial = distinct source with at least one v2-style command carrying a renamed command name")
RULE += (' Half of the models are loaded next to a project library whose commands are named like EEMS 2.0 commands; Windows-style file names; a field name that is both renamed by a READ and a result.')
TRUSTED = ["reference EEMS 2.0 -> MPilot name table in drivers/c16_driver.py (documented mapping)"]
ASSUMPTIONS = ["argument values restricted to printable ASCII strings, ints, finite floats, lists, tuples"]


def run(ctx, proof):
    n_struct = ctx.scale(400, 4000)
    n_models = ctx.scale(60, 600)
    data, err = common.run_driver_json(ctx, "c16_driver.py", [n_struct, n_models])
    if data is None:
        return {"errors": [err], "evaluations": 0}
    srcs = data["sources"]
    corr, cfail = ({"name": "load_nodes_impl", "cases": 0, "skipped": "proof cone did not build"}, [])
    if proof["ok"]:
        corr, cfail = common.check_case_files(ctx, data["files"], "load_nodes_impl (Model/Eems2.v) vs Program.from_source",
                                              describe=lambda i, a: {"source": srcs[i]})
    return {"corr": [corr], "corr_failures": cfail, "oracle_failures": data["oracle_failures"],
            "evaluations": data["evaluations"], "distinct_nontrivial": data["distinct_nontrivial"],
            "rule": RULE, "samples": data["samples"], "distribution": data["distribution"]}
