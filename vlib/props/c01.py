"""C01 -- every command executes exactly once, fed by its finished dependencies."""
import common

RULE = ("random DAGs (1-14 commands; references through direct parameters, lists and nested lists; diamonds, "
        "list-only references, shared sub-results) over a probe command library, rendered in a random file order, "
        "loaded by Program.from_source, run, then a random history of 0-8 run()/.result accesses; execute entry/exit "
        "counts, consumed object identities, values and post-history events compared with the Coq model. "
        "non-trivial = distinct program with >= 2 commands, >= 1 reference and a shared dependency or a non-empty history")
RULE += (' Also: the same graphs built in code with Program.add_command (references by name or by Command object), a command replaced through the API before the run, a deep copy of the program run instead of the program, two programs built from the same argument containers, and histories in which one or two commands fail the first time they execute (the state the failed run leaves behind and the run that follows are compared with Model/SchedFail.v and with run_program started from that state).')
TRUSTED = ["probe library drivers/verif_cmds (execute pulls every referenced result, as all built-in commands do: "
           "hypothesis pulls_all of the model)"]
ASSUMPTIONS = ["every execute takes .result of every command it references (true of the probe and of the built-in commands)"]
MODE = "dag"


def run(ctx, proof):
    n = ctx.scale(500, 12000)
    data, err = common.run_driver_json(ctx, "sched_driver.py", [MODE, n], timeout=3000)
    if data is None:
        return {"errors": [err], "evaluations": 0}
    descr = data["descr"]
    corr, cfail = ({"name": "run_program", "cases": 0, "skipped": "proof cone did not build"}, [])
    if proof["ok"]:
        corr, cfail = common.check_case_files(ctx, data["files"], "run_program (Model/Sched.v) vs Program.run",
                                              describe=lambda i, a: descr[i])
    corrs = [corr]
    if proof["ok"] and data.get("resume_files"):
        rd = data["resume_descr"]
        c2, f2 = common.check_case_files(ctx, data["resume_files"], "run_program started from the partial state a failed run left behind (C01_resume) vs the run that follows on the real program",
                                         describe=lambda i, a: rd[i] if i < len(rd) else i)
        corrs.append(c2)
        cfail += f2
    if proof["ok"] and data.get("failed_files"):
        fd = data["failed_descr"]
        c3, f3 = common.check_case_files(ctx, data["failed_files"], "run_programf with the failing commands (Model/SchedFail.v) vs the state a failed run leaves on the real program and the command that failed",
                                         describe=lambda i, a: fd[i] if i < len(fd) else i)
        corrs.append(c3)
        cfail += f3
    want = ctx.prop + ":"
    extra = ("C02:",) if ctx.prop == "C01" else ()
    # a driver run observes facts of C01, C02 and C14 at once; each check reports the ones that are its own
    mine = [f for f in data["oracle_failures"] if f["sig"].startswith((want,) + extra)]
    return {"corr": corrs, "corr_failures": cfail, "oracle_failures": mine,
            "evaluations": data["evaluations"], "distinct_nontrivial": data["distinct_nontrivial"],
            "rule": RULE, "samples": data["samples"], "distribution": data["distribution"]}
