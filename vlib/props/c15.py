"""C15 -- serialising a program and loading it back gives the same program."""
import common

RULE = ("programs of 2-8 commands over the built-in CSV library (EEMSRead, CvtToFuzzy, WeightedSum, NormalizeCurve: runnable) and a "
        "free-form test library (string, number, boolean, list, nested list, result, result-list, path, tuple and untyped "
        "parameters; a command accepting undeclared arguments), built 60% through add_command (raw values, already-clean values, "
        "Command objects in place of names, nested lists) and 40% from rendered source; string values with quotes, backslashes, "
        "delimiters, tabs, line breaks, non-ASCII text, text that looks like a number/boolean/list; numbers 0, negatives, 2**40, "
        "1e-05, 1e22, 5e-324, 1.797e308, -0.0, 1e16; metadata dictionaries. P.to_string() is loaded with from_source: command "
        "order, classes, argument names, cleaned values (floats bit for bit) and the results of the runnable part are compared; "
        "the text is compared with ser_program of the Coq model and the parser model is compared with the real parser on it. "
        "non-trivial = distinct serialised text with >= 2 commands")
RULE += (' Lists of 12-40 items and strings of 150 characters; raw control characters between quotes.')
TRUSTED = ["repr(float), str(float) and float(text) are oracles (the float texts are not modelled beyond the `.0e` repair)",
           "the abstract program handed to ser_program is read off the live Program by Python type (drivers/c15_driver.py: abstract)"]
ASSUMPTIONS = ["result names and argument names are identifiers (the loader only produces such)",
               "values are the kinds the property lists: strings, numbers, booleans, lists, references, metadata"]


def run(ctx, proof):
    n = ctx.scale(150, 3000)
    data, err = common.run_driver_json(ctx, "c15_driver.py", [n], timeout=3000)
    if data is None:
        return {"errors": [err], "evaluations": 0}
    descr, sdescr = data["descr"], data["ser_descr"]
    corr = [{"name": "ser_program", "cases": 0, "skipped": "proof cone did not build"}, {"name": "parse", "cases": 0, "skipped": "proof cone did not build"}]
    cfail, extra = [], {}
    if proof["ok"]:
        c1, f1 = common.check_case_files(ctx, data["ser_files"], "ser_program (Model/Serial.v) vs Program.to_string",
                                         describe=lambda i, a: sdescr[i] if i < len(sdescr) else i)
        c2, f2 = common.check_case_files(ctx, data["files"], "parse (Model/Lexer.v + Model/Parser.v) vs Parser.parse on the serialised text",
                                         describe=lambda i, a: descr[i] if i < len(descr) else i)
        corr, cfail = [c1, c2], f1 + f2
        # not a comparison: how many of the generated programs meet the hypotheses of C15_serialise_parse (names are identifiers, float texts of FLOAT shape)
        c3, f3 = common.check_case_files(ctx, data["wf_files"], "hypotheses of C15_serialise_parse", describe=lambda i, a: i)
        broken = [f for f in f3 if "did not evaluate" in f["what"]]
        cfail += broken
        extra = {"programs_meeting_the_hypotheses_of_C15_serialise_parse": c3["cases"] - (len(f3) - len(broken)), "of": c3["cases"],
                 "examples_outside_the_hypotheses": [sdescr[f["case"]]["serialised"][:200] for f in f3 if isinstance(f.get("case"), int)][:3]}
    return {"corr": corr, "corr_failures": cfail, "oracle_failures": data["oracle_failures"],
            "evaluations": data["evaluations"], "distinct_nontrivial": data["distinct_nontrivial"],
            "rule": RULE, "samples": data["samples"], "distribution": data["distribution"], "extra": extra}
