"""Shared runner of the array-family checks C03-C08 (drivers/cells_driver.py, Model/Cells.v)."""
import common


def run_cells(ctx, proof, prop, n_quick, n_thorough, rule):
    n = ctx.scale(n_quick, n_thorough)
    data, err = common.run_driver_json(ctx, "cells_driver.py", [prop, n], timeout=3000)
    if data is None:
        return {"errors": [err], "evaluations": 0}
    descr = data["descr"]
    corr, cfail = ({"name": "Cells.run", "cases": 0, "skipped": "proof cone did not build"}, [])
    if proof["ok"]:
        corr, cfail = common.check_case_files(ctx, data["files"], "run (Model/Cells.v) vs Command.run of the EEMS commands",
                                              describe=lambda i, a: descr[i])
    return {"corr": [corr], "corr_failures": cfail, "oracle_failures": data["oracle_failures"],
            "evaluations": data["evaluations"], "distinct_nontrivial": data["distinct_nontrivial"],
            "rule": rule, "samples": data["samples"], "distribution": data["distribution"]}
