"""C08 -- fuzzy conversions and normalisations compute their documented mappings."""
from props import cells

RULE = ("the 14 conversion/normalisation commands (CvtToFuzzy, CvtFromFuzzy, CvtToBinary, Cat, Curve, ZScore, CurveZScore, MeanToMid and the Normalize family) on arrays with >= 2 distinct valid values, explicit/default thresholds incl. 0, both directions, unsorted curve points, values on control points and on the mean, masked cells; compared with the exact reference mappings and with the Coq model (sigma is numpy's, checked against the exact variance). non-trivial = distinct case with >= 2 distinct valid values")
TRUSTED = ["exact reference evaluator in drivers/cells_common.py (written from the property statements and the user documentation)",
           "numpy.ma.std enters the model as the oracle sigma (checked against the exact variance to 2^-20 relative)"]
ASSUMPTIONS = ["exact rational arithmetic; IEEE rounding is absorbed by the tolerance 2^-36 relative; nan/inf results are not printable into Coq and are judged by the oracle only"]


def run(ctx, proof):
    return cells.run_cells(ctx, proof, "C08", 400, 8000, RULE)
