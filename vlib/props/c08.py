"""C08 -- fuzzy conversions and normalisations compute their documented mappings."""
from props import cells

RULE = ("the 14 conversion/normalisation commands (CvtToFuzzy, CvtFromFuzzy, CvtToBinary, Cat, Curve, ZScore, CurveZScore, MeanToMid and the Normalize family) on arrays with >= 2 distinct valid values, explicit/default thresholds incl. 0, both directions, unsorted curve points, values on control points and on the mean, masked cells; compared with the exact reference mappings and with the Coq model (sigma is numpy's, checked against the exact variance). non-trivial = distinct case with >= 2 distinct valid values")
RULE += (' Every stream also has a stratified part: each command once per unusual element type (uint64 as the NetCDF reader returns for Positive Integer, uint8, int16), weighted commands with a weight of exactly 0 next to a cell missing only in that input, nine to twelve input layers, the same result mentioned twice, inputs re-laid in memory (Fortran order, transposed / reversed / strided views), B written before A, a Metadata argument on every third run. Thresholds exactly +1 / -1, integer value tables with fractional defaults, one layer used by several conversions in one model.')
TRUSTED = ["exact reference evaluator in drivers/cells_common.py (written from the property statements and the user documentation)",
           "numpy.ma.std enters the model as the oracle sigma (checked against the exact variance to 2^-20 relative)"]
ASSUMPTIONS = ["exact rational arithmetic; IEEE rounding is absorbed by the tolerance 2^-36 relative; nan/inf results are not printable into Coq and are judged by the oracle only"]


def run(ctx, proof):
    return cells.run_cells(ctx, proof, "C08", 400, 8000, RULE)
