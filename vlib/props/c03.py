"""C03 -- missing data stays missing and never leaks into valid results."""
from props import cells

RULE = ('all 31 data commands on generated masked arrays (rank 1-3, int64/float64, 1-5 inputs, mask density 0.2-0.5) whose missing cells hide hostile payloads (0, 1e20, -9999, 3.5, values inside the valid range, nan/inf); each case is run twice with different payloads; mask and values compared with the Coq model and with the exact reference. non-trivial = distinct case with at least one missing and one valid input cell')
RULE += (' Every stream also has a stratified part: each command once per unusual element type (uint64 as the NetCDF reader returns for Positive Integer, uint8, int16), weighted commands with a weight of exactly 0 next to a cell missing only in that input, nine to twelve input layers, the same result mentioned twice, inputs re-laid in memory (Fortran order, transposed / reversed / strided views), B written before A, a Metadata argument on every third run.')
TRUSTED = ["exact reference evaluator in drivers/cells_common.py (written from the property statements and the user documentation)",
           "numpy.ma.std enters the model as the oracle sigma (checked against the exact variance to 2^-20 relative)"]
ASSUMPTIONS = ["exact rational arithmetic; IEEE rounding is absorbed by the tolerance 2^-36 relative; nan/inf results are not printable into Coq and are judged by the oracle only"]


def run(ctx, proof):
    res = cells.run_cells(ctx, proof, "C03", 350, 6000, RULE)
    # mask creation from MissingVal when data enters a model (CSV reader): the missing cells are exactly the marked ones
    import common
    data, err = common.run_driver_json(ctx, "c17_driver.py", [ctx.scale(60, 600)], timeout=3000)
    if data is None:
        res.setdefault("errors", []).append(err)
    else:
        for f in data["oracle_failures"]:
            if f["sig"] in ("C17:missing-cells", "C17:values"):
                res["oracle_failures"].append(dict(f, sig="C03:csv-" + f["sig"][4:]))
        res["evaluations"] = res.get("evaluations", 0) + data["evaluations"]
        res.setdefault("extra", {})["csv_reads"] = data["distribution"].get("reads", 0)
    # ... and the NetCDF reader: cells the file marks as missing and cells equal to MissingValue are missing, no stored number leaks
    data, err = common.run_driver_json(ctx, "c18_driver.py", [ctx.scale(25, 250)], timeout=3000)
    if data is None:
        res.setdefault("errors", []).append(err)
    else:
        for f in data["oracle_failures"]:
            if f["sig"] in ("C18:read-missing", "C18:read-values", "C18:write-corrupts-input"):
                res["oracle_failures"].append(dict(f, sig="C03:netcdf-" + f["sig"][4:]))
        res["evaluations"] = res.get("evaluations", 0) + data["distribution"].get("reads", 0)
        res.setdefault("extra", {})["netcdf_reads"] = data["distribution"].get("reads", 0)
    return res
