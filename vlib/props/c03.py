"""C03 -- missing data stays missing and never leaks into valid results."""
from props import cells

RULE = ('all 31 data commands on generated masked arrays (rank 1-3, int64/float64, 1-5 inputs, mask density 0.2-0.5) whose missing cells hide hostile payloads (0, 1e20, -9999, 3.5, values inside the valid range, nan/inf); each case is run twice with different payloads; mask and values compared with the Coq model and with the exact reference. non-trivial = distinct case with at least one missing and one valid input cell')
TRUSTED = ["exact reference evaluator in drivers/cells_common.py (written from the property statements and the user documentation)",
           "numpy.ma.std enters the model as the oracle sigma (checked against the exact variance to 2^-20 relative)"]
ASSUMPTIONS = ["exact rational arithmetic; IEEE rounding is absorbed by the tolerance 2^-36 relative; nan/inf results are not printable into Coq and are judged by the oracle only"]


def run(ctx, proof):
    return cells.run_cells(ctx, proof, "C03", 350, 6000, RULE)
