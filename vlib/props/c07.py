"""C07 -- arithmetic commands are correct for all numeric types and input orders."""
from props import cells

RULE = ('the 10 arithmetic commands, 1-5 inputs, every mix of int64/float64 inputs, int and fractional weights (zero-sum included), zero divisors, mismatched shapes, wrong weight counts, empty input lists; results and error classes compared with the exact definitions, with a random input order, and with the Coq model. non-trivial = distinct case with >= 2 differing inputs, a mixed dtype assignment or an error outcome')
RULE += (' Every stream also has a stratified part: each command once per unusual element type (uint64 as the NetCDF reader returns for Positive Integer, uint8, int16), weighted commands with a weight of exactly 0 next to a cell missing only in that input, nine to twelve input layers, the same result mentioned twice, inputs re-laid in memory (Fortran order, transposed / reversed / strided views), B written before A, a Metadata argument on every third run.')
TRUSTED = ["exact reference evaluator in drivers/cells_common.py (written from the property statements and the user documentation)",
           "numpy.ma.std enters the model as the oracle sigma (checked against the exact variance to 2^-20 relative)"]
ASSUMPTIONS = ["exact rational arithmetic; IEEE rounding is absorbed by the tolerance 2^-36 relative; nan/inf results are not printable into Coq and are judged by the oracle only"]


def run(ctx, proof):
    return cells.run_cells(ctx, proof, "C07", 400, 8000, RULE)
