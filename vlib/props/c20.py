"""C20 -- parameter cleaning is typed, pure and idempotent."""
import common

RULE = ("every distinct parameter declaration of both built-in library sets (plus nested lists, typed result parameters of every "
        "output kind) x a fixed matrix of 18 raw kinds, then random raw values of every kind the parser or the API delivers (ints, "
        "floats incl. inf/nan/exponent forms, booleans, numeric/boolean/path/result-name/data-type strings, nested lists, tuples, "
        "dicts, Command objects, type objects, arrays, None) with and without a working directory; clean(v) twice, clean(clean(v)), "
        "deep copies of the value and the program before/after, type of the result; outcome compared with the Coq model. "
        "non-trivial = distinct case whose raw value is not already of the declared type, or whose outcome is an error")
RULE += (' Also numpy / Decimal / Fraction numbers, an unfinished command that declares no output, and whole programs whose raw arguments and to_string() are compared before and after run().')
TRUSTED = ["Python's int()/float()/str() on strings and floats enter the model as oracle fields of the raw value (cross-checked in Coq for plain decimal integers)",
           "os.path.isabs/join/exists are modelled for POSIX paths; os.path.exists is the listed set of existing paths"]
ASSUMPTIONS = ["ASCII strings; Command objects belong to the program"]


def run(ctx, proof):
    n = ctx.scale(1500, 30000)
    data, err = common.run_driver_json(ctx, "c20_driver.py", [n], timeout=3000)
    if data is None:
        return {"errors": [err], "evaluations": 0}
    descr = data["descr"]
    corr, cfail = ({"name": "clean", "cases": 0, "skipped": "proof cone did not build"}, [])
    if proof["ok"]:
        corr, cfail = common.check_case_files(ctx, data["files"], "clean (Model/Params.v) vs Parameter.clean", describe=lambda i, a: descr[i])
    return {"corr": [corr], "corr_failures": cfail, "oracle_failures": data["oracle_failures"],
            "evaluations": data["evaluations"], "distinct_nontrivial": data["distinct_nontrivial"],
            "rule": RULE, "samples": data["samples"], "distribution": data["distribution"]}
