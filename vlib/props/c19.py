"""C19 -- command lookup depends only on the libraries requested."""
import common

RULE = ("process histories (Program constructions over built-in and generated prefix-related user libraries, dynamic "
        "class definitions, imports) each run in a fresh subprocess, then Program(libs); observed name->module map "
        "or duplicate error compared with the Coq model and with the fresh-process answer for the same libs. "
        "non-trivial = distinct history with >= 2 events in which two library names are related by string prefix "
        "or the outcome is the duplicate error")
RULE += (' Also: same-named subclasses of registered commands, a library whose import fails, is repaired and is requested again, a Program constructed with working_dir before a request for a library only that folder holds.')
TRUSTED = ["class identity = (module, command name) (the metaclass's first-wins rule is then invisible); "
           "Python's import system imports exactly the requested module and its sub-modules plus their own imports"]
ASSUMPTIONS = ["dynamic class definitions in a module that belongs to a requested library are outside the quantifier "
               "(hypothesis `consistent` of the theorem)"]


def run(ctx, proof):
    n = ctx.scale(80, 1200)
    data, err = common.run_driver_json(ctx, "c19_driver.py", [n], timeout=3000)
    if data is None:
        return {"errors": [err], "evaluations": 0}
    descr = data["descr"]
    corr, cfail = ({"name": "construct", "cases": 0, "skipped": "proof cone did not build"}, [])
    if proof["ok"]:
        corr, cfail = common.check_case_files(ctx, data["files"], "construct (Model/Registry.v) vs Program.__init__ in fresh subprocesses",
                                              describe=lambda i, a: descr[i])
    return {"corr": [corr], "corr_failures": cfail, "oracle_failures": data["oracle_failures"],
            "evaluations": data["evaluations"], "distinct_nontrivial": data["distinct_nontrivial"],
            "rule": RULE, "samples": data["samples"], "distribution": data["distribution"],
            "extra": {"universe_size": data["universe_size"]}}
