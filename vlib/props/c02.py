"""C02 -- model results equal the evaluation of the graph, whatever the file order."""
import common

RULE = ("random well-typed EEMS models over the built-in CSV library (2-4 integer/float columns with missing cells, 3-14 commands "
        "drawn from all data commands, fuzziness discipline respected, shared intermediates) rendered in a random file order with "
        "forward references and Metadata at random argument positions, loaded by Program.from_source and run; every command's "
        "result compared with an independent exact reference interpreter, with the same model in another file order without "
        "metadata (bit-identical), and with the Coq model (scheduler model instantiated with the cell semantics); plus the "
        "abstract probe-library DAG runs of C01. non-trivial = distinct model with >= 2 commands and >= 1 reference")
RULE += (' Also the probe-library programs of C01 (file orders, API-built and API-edited programs); tables hold values next to the missing-value marker; CvtToFuzzy with one threshold given and a Direction.')
TRUSTED = ["exact reference interpreter (drivers/c02_driver.py + cells_common.ref_eval)",
           "discontinuous commands (Binary, Cat, MeanToMid, ZScore) are only fed values computed exactly in floating point, so "
           "that rounding cannot flip a comparison"]
ASSUMPTIONS = ["well-typed = what the loader accepts and the generator constructs; EEMSWrite (returns None) is covered under C17"]


def run(ctx, proof):
    n = ctx.scale(120, 2500)
    data, err = common.run_driver_json(ctx, "c02_driver.py", [n], timeout=3000)
    if data is None:
        return {"errors": [err], "evaluations": 0}
    descr = data["descr"]
    corr, cfail = ({"name": "run_program (eemsF)", "cases": 0, "skipped": "proof cone did not build"}, [])
    if proof["ok"]:
        corr, cfail = common.check_case_files(ctx, data["files"], "run_program over eemsF (Model/EemsProg.v) vs Program.from_source+run",
                                              describe=lambda i, a: descr[i])
    # the abstract side: the probe-library programs of C01 (file orders, programs built and edited through the API); the values
    # every command ends up with must be those of the graph as it stands when it runs
    oracle = list(data["oracle_failures"])
    sdata, serr = common.run_driver_json(ctx, "sched_driver.py", ["dag", ctx.scale(250, 4000)], timeout=3000)
    if sdata is None:
        return {"errors": [serr], "evaluations": 0}
    oracle += [f for f in sdata["oracle_failures"] if f["sig"].startswith("C02:")]
    data["evaluations"] += sdata["evaluations"]
    data["distribution"]["probe_programs"] = {k: sdata["distribution"].get(k) for k in ("programs", "built_in_code", "edited_models", "flaky_histories")}
    return {"corr": [corr], "corr_failures": cfail, "oracle_failures": oracle,
            "evaluations": data["evaluations"], "distinct_nontrivial": data["distinct_nontrivial"],
            "rule": RULE, "samples": data["samples"], "distribution": data["distribution"]}
