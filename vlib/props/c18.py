"""C18 -- NetCDF reading and writing are faithful."""
import common

RULE = ("NetCDF files created with netCDF4: grids of rank 1-3 incl. length-1 axes, variables stored as f8/f4/i4/i2 with _FillValue-"
        "masked cells, in-file missing markers, fuzzy and positive flavours, coordinate variables with attributes; three reads per "
        "file under random combinations of DataType (absent, Float, Integer, Positive Float, Positive Integer, Fuzzy), MissingValue "
        "and a missing variable name; 1-3 results (float64/float32/int64, different masks, unmasked) written together with the real "
        "EEMSWrite against the file as template, inspected with netCDF4 (shape, kind, union of missing cells, values, copied "
        "dimension variables, inputs unchanged) and read back through EEMSRead. non-trivial = read of >= 2 cells with a masked cell or a non-integer value")
RULE += (' Files in every NetCDF format, CF-packed and big-endian variables, layers without a single value, values next to the markers; Integer reads of decoded float64 data stratified.')
TRUSTED = ["the netCDF4 C library and its Python binding: the model starts from the variable as netCDF4 hands it over and assumes load(store v) = v (named hypothesis of C18_roundtrip)"]
ASSUMPTIONS = ["values exactly representable in the stored type; the Fuzzy tolerance compares against the rational 1.02"]


def run(ctx, proof):
    n = ctx.scale(60, 1500)
    data, err = common.run_driver_json(ctx, "c18_driver.py", [n], timeout=3000)
    if data is None:
        return {"errors": [err], "evaluations": 0}
    descr = data["descr"]
    corr, cfail = ({"name": "read_var/write_all", "cases": 0, "skipped": "proof cone did not build"}, [])
    if proof["ok"]:
        corr, cfail = common.check_case_files(ctx, data["files"], "read_var / write_all (Model/Netcdf.v) vs NetCDF EEMSRead / EEMSWrite", describe=lambda i, a: descr[i] if i < len(descr) else i)
    return {"corr": [corr], "corr_failures": cfail, "oracle_failures": data["oracle_failures"],
            "evaluations": data["evaluations"], "distinct_nontrivial": data["distinct_nontrivial"],
            "rule": RULE, "samples": data["samples"], "distribution": data["distribution"]}
