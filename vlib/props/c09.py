"""C09 -- computed results are immutable: commands never modify their inputs."""
import common

RULE = ("histories over a growing pool of finished results (rank 1-2 arrays, int/float, masked, fuzzy and non-fuzzy): 40-60 random "
        "consumer executions per history drawn from all built-in data commands (single-input forms of n-ary operators, unit "
        "weights, CSV and NetCDF writers included), every pool member snapshotted (shape, element type, missing cells, non-missing "
        "values) before and compared after each execution; observed result/input memory sharing compared with the alias sets the "
        "Coq check derives from the regenerated effect IR. non-trivial = a consumer execution after which >= 1 earlier result with "
        ">= 1 non-missing cell is re-inspected")
RULE += (' The pool also holds results with NaN cells and results without a mask array; single-input n-ary commands are biased towards them.')
TRUSTED = ["drivers/gen_effects.py: Python syntax -> effect tags, and its tables of numpy/stdlib API facts (which functions return "
           "views, which methods write in place); validated dynamically by the alias comparison, not verified",
           "insure_fuzzy is summarised as KClamp (its body shape is checked by GenCellFacts.clamp_body under C04)"]
ASSUMPTIONS = ["values of inputs declared is_fuzzy=True lie in [-1, 1] (C04 for their producers, type discipline of the loader)"]


def run(ctx, proof):
    n = ctx.scale(12, 300)
    data, err = common.run_driver_json(ctx, "c09_driver.py", [n], timeout=3000)
    if data is None:
        return {"errors": [err], "evaluations": 0}
    corr, cfail = ({"name": "alias sets", "cases": 0, "skipped": "proof cone did not build"}, [])
    if proof["ok"]:
        corr, cfail = common.check_case_files(ctx, data["files"], "alias sets of the effect IR (Model/Effects.v check) vs observed memory sharing",
                                              describe=lambda i, a: data["descr"][i])
    return {"corr": [corr], "corr_failures": cfail, "oracle_failures": data["oracle_failures"],
            "evaluations": data["evaluations"], "distinct_nontrivial": data["distinct_nontrivial"],
            "rule": RULE, "samples": data["samples"], "distribution": data["distribution"]}
