"""C17 -- CSV reading and writing are faithful."""
import common

RULE = ("random tables (1-5 columns, 0-8 data rows; integers and every kind of finite double incl. subnormals, extremes, -0.0, "
        "random bit patterns; header names that need CSV quoting; blank lines; missing final newline; declared missing values "
        "-9999/0/-0.0/1e20/3.5; both element types) read with the real EEMSRead, plus empty files, missing headers, non-numeric cells "
        "and short rows; arrays (int64/float64, some with missing cells) written with the real EEMSWrite, the file compared with "
        "the model and every column read back and compared bit for bit. non-trivial = read of >= 2 rows with a declared missing value or a non-integer value")
RULE += (' Tables overwrite paths read before; records whose cells are all empty; models that read and write the same table with the writer declared first.')
TRUSTED = ["Python's csv module (rows as csv.reader delivers them), float(text) and str(float) are oracles of the model"]
ASSUMPTIONS = ["1-D arrays; ASCII header names in the Coq comparison"]


def run(ctx, proof):
    n = ctx.scale(150, 3000)
    data, err = common.run_driver_json(ctx, "c17_driver.py", [n], timeout=3000)
    if data is None:
        return {"errors": [err], "evaluations": 0}
    descr = data["descr"]
    corr, cfail = ({"name": "read/write", "cases": 0, "skipped": "proof cone did not build"}, [])
    if proof["ok"]:
        corr, cfail = common.check_case_files(ctx, data["files"], "read / write (Model/Csv.v) vs CSV EEMSRead / EEMSWrite", describe=lambda i, a: descr[i] if i < len(descr) else i)
    return {"corr": [corr], "corr_failures": cfail, "oracle_failures": data["oracle_failures"],
            "evaluations": data["evaluations"], "distinct_nontrivial": data["distinct_nontrivial"],
            "rule": RULE, "samples": data["samples"], "distribution": data["distribution"]}
