"""C11 -- line numbers in parse trees and errors are the true source lines."""
import common
from props import c10

RULE = ("the C10 stream (every rendering records the line on which each command, argument, value and list element starts; LF and "
        "CRLF texts; blank lines, comment lines, trailing comments, multi-line arguments and quoted strings) parsed alternately by a "
        "fresh Parser and by ONE Parser object re-used for the whole history (also after failed parses); plus models with one "
        "injected fault whose location is known by construction (8 fault kinds, multi-line commands, blank/comment padding): the "
        "line carried by the error and the line the command-line tool marks with '-->'. non-trivial = distinct text with >= 2 lines and >= 1 argument")
TRUSTED = c10.TRUSTED
ASSUMPTIONS = ["line ends LF or CRLF (the theorem's hypothesis; bare-CR files are outside)"]


def run(ctx, proof):
    old = c10.PROP
    c10.PROP = "C11"
    try:
        res = c10.run(ctx, proof)
    finally:
        c10.PROP = old
    res["rule"] = RULE
    return res
