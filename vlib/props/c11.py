"""C11 -- line numbers in parse trees and errors are the true source lines."""
import common
from props import c10

RULE = ("the C10 stream (every rendering records the line on which each command, argument, value and list element starts; LF and "
        "CRLF texts and texts that mix line-break conventions; blank lines, comment lines, trailing comments, multi-line arguments and quoted strings) parsed alternately by a "
        "fresh Parser and by ONE Parser object re-used for the whole history (also after failed parses); plus models with one "
        "injected fault whose location is known by construction (14 fault kinds: load-time and validation faults, list arguments and nested lists opening on a later line, Metadata read through Command.metadata, run-time faults in commands that are not leaves; multi-line commands, blank/comment padding): the "
        "line carried by the error and the line the command-line tool marks with '-->' (its whole context display is compared with Model/Cli.v); every step of the re-used Parser object is compared with Model/ParserObj.v. non-trivial = distinct text with >= 2 lines and >= 1 argument")
TRUSTED = c10.TRUSTED
ASSUMPTIONS = ["line ends LF or CRLF (the theorem's hypothesis; bare-CR files are outside)"]


def run(ctx, proof):
    old = c10.PROP
    c10.PROP = "C11"
    try:
        res = c10.run(ctx, proof)
    finally:
        c10.PROP = old
    res["rule"] = RULE
    return res
