"""C05 -- results keep the input shape; cells are computed independently."""
from props import cells

RULE = ('all 31 data commands on arrays of rank 1-3 incl. length-1 axes; each case is re-run on a common random permutation of the cells reshaped to another shape of the same size; shape and rearranged cells compared, and the first run compared with the Coq model. non-trivial = distinct case of rank >= 2 or with >= 3 cells')
TRUSTED = ["exact reference evaluator in drivers/cells_common.py (written from the property statements and the user documentation)",
           "numpy.ma.std enters the model as the oracle sigma (checked against the exact variance to 2^-20 relative)"]
ASSUMPTIONS = ["exact rational arithmetic; IEEE rounding is absorbed by the tolerance 2^-36 relative; nan/inf results are not printable into Coq and are judged by the oracle only"]


def run(ctx, proof):
    return cells.run_cells(ctx, proof, "C05", 350, 6000, RULE)
