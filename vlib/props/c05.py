"""C05 -- results keep the input shape; cells are computed independently."""
from props import cells

RULE = ('all 31 data commands on arrays of rank 1-3 incl. length-1 axes; each case is re-run on a common random permutation of the cells reshaped to another shape of the same size; shape and rearranged cells compared, and the first run compared with the Coq model. non-trivial = distinct case of rank >= 2 or with >= 3 cells')
RULE += (' Every stream also has a stratified part: each command once per unusual element type (uint64 as the NetCDF reader returns for Positive Integer, uint8, int16), weighted commands with a weight of exactly 0 next to a cell missing only in that input, nine to twelve input layers, the same result mentioned twice, inputs re-laid in memory (Fortran order, transposed / reversed / strided views), B written before A, a Metadata argument on every third run. Every case is re-run on a re-laid copy of its inputs; every command once on a rank-3 and a rank-2 grid without length-1 axes; large rasters made of tiled blocks; layers of different rank whose shapes share a prefix.')
TRUSTED = ["exact reference evaluator in drivers/cells_common.py (written from the property statements and the user documentation)",
           "numpy.ma.std enters the model as the oracle sigma (checked against the exact variance to 2^-20 relative)"]
ASSUMPTIONS = ["exact rational arithmetic; IEEE rounding is absorbed by the tolerance 2^-36 relative; nan/inf results are not printable into Coq and are judged by the oracle only"]


def run(ctx, proof):
    return cells.run_cells(ctx, proof, "C05", 350, 6000, RULE)
