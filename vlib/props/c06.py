"""C06 -- fuzzy-logic operators compute the EEMS definitions and obey their algebra."""
from props import cells

RULE = ('the 7 fuzzy operators: EXHAUSTIVE over all tuples of <= 3 inputs drawn from the lattice {-1,-0.5,0,0.5,1,missing} (thorough: {k/4} and missing), every admissible k / Truest-Falsest / four weight vectors, plus random cases with up to 5 inputs; compared with the exact scalar definitions, with a random input order, and with the Coq model. non-trivial = distinct case with >= 2 inputs that differ in at least one cell')
RULE += (" Every stream also has a stratified part: each command once per unusual element type (uint64 as the NetCDF reader returns for Positive Integer, uint8, int16), weighted commands with a weight of exactly 0 next to a cell missing only in that input, nine to twelve input layers, the same result mentioned twice, inputs re-laid in memory (Fortran order, transposed / reversed / strided views), B written before A, a Metadata argument on every third run. A sample of the cases is re-run under numpy.seterr(divide/invalid/over='raise') with warnings as errors; [A, B, A] lists in the lattice.")
TRUSTED = ["exact reference evaluator in drivers/cells_common.py (written from the property statements and the user documentation)",
           "numpy.ma.std enters the model as the oracle sigma (checked against the exact variance to 2^-20 relative)"]
ASSUMPTIONS = ["exact rational arithmetic; IEEE rounding is absorbed by the tolerance 2^-36 relative; nan/inf results are not printable into Coq and are judged by the oracle only"]


def run(ctx, proof):
    return cells.run_cells(ctx, proof, "C06", 300, 5000, RULE)
