"""Writes /verif/MANIFEST.json from the table below (run after adding a check)."""
import json
import os

VERIF = os.path.dirname(os.path.dirname(os.path.abspath(__file__)))

CLAIMED = {
    "C16": {
        "text": "Rocq theorems about a Gallina model of convert_eems2_commands/version detection whose constants "
                "(command table, fallback and dropped argument names) are regenerated from /repo on every run: the "
                "conversion equals the documented mapping for every program of well-formed EEMS 2.0 nodes (any size, "
                "any mix), MPilot-style programs are untouched, every table value names a command that exists in both "
                "library sets (finite table, decided by vm_compute over regenerated signatures; two listed known "
                "findings excepted). Model tied to the code by differential runs of the real parser+loader.",
        "note": "Trusted: Coq kernel+vm_compute, translator, harness; argument values ASCII/ints/floats/lists/tuples; "
                "equal results follow from equal loaded structure (checked by running both renderings).",
        "technique": "Rocq proof over regenerated tables + differential correspondence (vm_compute) + oracle on real loader",
        "design": "DESIGN.md section 4 C16",
    },
}

CLAIMED["C19"] = {
    "text": "Rocq theorem about a Gallina model of the process-global registry, library import and Program.__init__'s "
            "selection/duplicate test: for every universe of source files, every history (any length) of class "
            "definitions and Program constructions consistent with the source files and every request, the lookup "
            "equals a history-free function of the requested libraries; requesting two libraries that define one name "
            "fails. The selection predicate is read off the source on every run (GenFacts); model tied to the code by "
            "differential runs of histories in fresh subprocesses (prefix-related user libraries, built-in sets).",
    "note": "Trusted: class identity = (module, name); Python import semantics (module + sub-modules + their imports) "
            "is modelled, not verified; dynamic classes claiming a requested library's module are outside the theorem.",
    "technique": "Rocq proof (invariant over histories) + regenerated selection predicate + subprocess differential correspondence",
    "design": "DESIGN.md section 4 C19",
}

SCHED_NOTE = ("Trusted: the model mirrors Program.run/Command.run by hand (pre-pass, peeling cycle check, leaf selection as "
              "coded, memoised pull with fuel = Python stack); abstract command semantics F (Section variable); probe "
              "library; interleaving of pulls inside execute is not compared (only counts, values, identities).")
CLAIMED["C01"] = {
    "text": "Rocq theorems, for every command semantics F and every program that passes the pre-pass (any size, fan-in/out, "
            "direct/list/nested references, any file order): run() succeeds, every command is entered and left exactly once, "
            "nothing else executes, every result is F of the memoised results it references (C01_exactly_once, by an "
            "invariant over the fuelled DFS generalised over the stack of unfinished commands); every acyclic program passes "
            "the pre-pass; any history of further run()/result accesses changes nothing (C01_history). RESUMING (C01_resume): "
            "started from ANY consistent partial state - what result reads before the first run, a run that failed inside some "
            "execute(), or an interrupted run leave behind; the trace recorded so far is arbitrary - run() succeeds, executes exactly "
            "the commands that were not finished, each once, keeps every memoised result and ends in the solution of the graph's "
            "equations; and a run in which some execute() fails (any partial semantics that agrees with F where defined) leaves "
            "such a consistent state behind (C01_failed_run_leaves_a_consistent_state, Model/SchedFail.v). Model tied to the "
            "code by differential runs on random DAGs with probe commands: programs loaded from text and built / edited through "
            "the API (references by name or by Command object), histories of run()/result reads, and histories in which commands "
            "fail the first time they execute (the state left behind and the run that follows are both compared with the model).",
    "note": SCHED_NOTE, "technique": "Rocq proof (invariant/induction over fuelled DFS) + differential correspondence on random DAGs",
    "design": "DESIGN.md section 4 C01",
}
CLAIMED["C14"] = {
    "text": "Rocq theorems: every program with a reference cycle (any size, self-loops, tails, extra components, direct or "
            "list references, any file order, any stack depth, any state) is rejected with the recursive-model outcome and "
            "executes nothing (C14); a successful run has finished every command (C14_no_partial_success); acyclic programs "
            "are never rejected. The model's cycle check mirrors the peeling loop of Program.run; tied by exhaustive "
            "correspondence on all digraphs on <=3 (quick) / <=4 (thorough) commands plus random larger ones.",
    "note": SCHED_NOTE, "technique": "Rocq proof (peeling/stuck-set argument) + exhaustive small-scope correspondence",
    "design": "DESIGN.md section 4 C14",
}

CELLS_NOTE = ("Trusted: Model/Cells.v mirrors the 31 execute() bodies by hand over exact rationals (cells = option Q, results in "
              "lowest terms); IEEE rounding/overflow/NaN not modelled; numpy.ma.std enters as the oracle sigma; the model is tied "
              "to the code by differential runs through Command.run on generated masked arrays with hostile hidden payloads "
              "(tolerance 2^-36 relative) and by the exact reference evaluator of drivers/cells_common.py.")
CLAIMED["C03"] = {
    "text": "Rocq theorems about the cell model of all 31 data commands, which is by construction an instance of one "
            "mask-respecting combinator: for every command, number of inputs, shape, element type and placement of missing cells, "
            "a result cell is missing exactly when an input cell of its column is missing or the operation is undefined on the "
            "column's values (C03_mask_law); missing cells are never resurrected; for the 25 everywhere-defined commands missing iff "
            "an input cell is missing (C03_total, by a per-command definedness proof); division is undefined exactly on zero "
            "divisors / zero weight sums; results are a function of the observable inputs only (C03_noninterference: payloads under "
            "missing cells, whole-array statistics included). Tied by differential runs that vary the hidden payloads.",
    "note": CELLS_NOTE + " Non-interference is structural in the model (cells carry no payload); it is the correspondence that "
            "shows the code computes a function of the observation. CSV/NetCDF mask creation is checked under C17/C18.",
    "technique": "Rocq proof (generic combinator theorems + per-command definedness) + differential correspondence with payload variation",
    "design": "DESIGN.md section 4 C03",
}
CLAIMED["C04"] = {
    "text": "Rocq theorem: for every command the code declares fuzzy-producing (live is_fuzzy flags regenerated into GenSigs; the "
            "model's classification is proved equal to it), every input list and every parameter choice of any magnitude, all "
            "non-missing result cells lie in [-1, 1] (C04, via: every column function of a fuzzy command ends in the clamp). Source "
            "obligation regenerated from the AST on every run: every return of every fuzzy execute() is insure_fuzzy(_, -1, 1) and "
            "insure_fuzzy is the two-sided in-place clamp (C04_clamp_on_every_return, vm_compute over the regenerated table).",
    "note": CELLS_NOTE + " Floating-point overshoot of a clamp-free path cannot be expressed in exact arithmetic; the clamp-on-every-"
            "return obligation is what guards it.",
    "technique": "Rocq proof + regenerated source-fact obligation (AST) + differential correspondence with out-of-range parameters",
    "design": "DESIGN.md section 4 C04",
}
CLAIMED["C05"] = {
    "text": "Rocq theorems: every command returns the shape of its input and one cell per input cell (C05_shape); for every "
            "permutation p of the n cell positions and every new shape, running the command on the commonly rearranged inputs "
            "gives the same element type, the new shape and the identically rearranged cells (C05_rearrange, all 31 commands incl. "
            "those using whole-array statistics: min/max/mean/means around the mean are proved symmetric under permutation; "
            "C05_reshape is the identity-permutation case). Tied by differential runs on rank 1-3 arrays incl. length-1 axes, each "
            "re-run permuted and reshaped.",
    "note": CELLS_NOTE + " In the model cells are a flat list in C order; that numpy reshape/ravel preserve that order is assumed.",
    "technique": "Rocq proof (permutation invariance of statistics, equivariance of the combinator) + differential correspondence incl. permuted re-runs",
    "design": "DESIGN.md section 4 C05",
}

CLAIMED["C06"] = {
    "text": "Rocq theorems about the column functions of the 7 fuzzy operators (any number of inputs): Or/And are fz of THE maximum/"
            "minimum (characterised, not restated), Not is fz of the negation, Union the mean, WeightedUnion the weighted mean "
            "(missing on zero weight sum), SelectedUnion the mean of the last/first k of the ascending sorted rearrangement "
            "(proved a sorted permutation), XOr the EEMS formula on the two truest; consequences proved for all inputs: "
            "reordering the inputs leaves outcome, type, shape and every cell unchanged at the level of whole runs "
            "(C06_order_invariance; insertion sort proved order-independent up to ==), Not involution, De Morgan, "
            "And <= Union <= Or, k=1 gives Or/And, k=all gives Union. Tied by EXHAUSTIVE lattice runs for <= 3 inputs plus random ones.",
    "note": CELLS_NOTE, "technique": "Rocq proof (algebra of the column functions, lifted to runs) + exhaustive-lattice differential correspondence",
    "design": "DESIGN.md section 4 C06",
}
CLAIMED["C07"] = {
    "text": "Rocq theorems about the 10 arithmetic command models: column functions are the arithmetic definitions (sum, product, "
            "difference, quotient, THE min/max, mean, weighted sum/mean); result element type is integer exactly when all inputs "
            "(and weights) are; commutative commands give the same outcome - success or failure alike - type, shape and cells for "
            "every ordering of the inputs (C07_order_invariance, all input counts); division by zero is a missing cell exactly at "
            "zero divisors and the checks never look at values; the checks are exactly: weight count first, empty list, mismatched "
            "shapes (validate_shapes characterised as non-empty and all shapes equal). Tied by differential runs over mixes of "
            "int8/16/32/64 and float32/64 inputs, both orders, zero divisors, error cases.",
    "note": CELLS_NOTE + " Integer wrap-around inside a narrow element type (e.g. int8 data times an integer weight) is numpy's "
            "semantics, not modelled, and excluded from generation.",
    "technique": "Rocq proof + differential correspondence over dtype mixes, orders and error cases",
    "design": "DESIGN.md section 4 C07",
}
CLAIMED["C08"] = {
    "text": "Rocq theorems about the 14 conversion/normalisation models: CvtToFuzzy is the clamped affine map sending the true "
            "threshold to +1 and the false one to -1 (endpoints and affinity proved), thresholds default to data min/max by "
            "direction, CvtFromFuzzy inverts it between the thresholds, it is monotone; every CvtToFuzzy variant equals its "
            "Normalize counterpart followed by the clamp, with identical checks; CvtToBinary is the threshold test; category "
            "lookup returns the listed value on a hit and the default otherwise; curves use the given control points sorted by raw "
            "value (proved a sorted permutation) and are flat outside and the straight line between neighbours; z-score and "
            "mean-to-mid variants are the same curve over control points derived from the (permutation-invariant) statistics. "
            "Tied by differential runs incl. thresholds equal to 0, unsorted points, cells on control points and on the mean.",
    "note": CELLS_NOTE + " sqrt (numpy.ma.std) is the oracle sigma, validated per case against the exact variance.",
    "technique": "Rocq proof (mapping laws) + differential correspondence against the code and an exact reference",
    "design": "DESIGN.md section 4 C08",
}

CLAIMED["C02"] = {
    "text": "Rocq theorems for EVERY command semantics F and every accepted program in any file order (forward references): after "
            "run() the results solve the data-flow equations of the graph (C02_values); on an acyclic graph these equations have "
            "exactly one solution, so a result depends on the graph and the inputs only - not on other consumers or the schedule "
            "(C02_evaluation_unique); every permutation of the file computes the same results (C02_order); instantiated with the "
            "EEMS cell semantics (C02_eems: scheduler model composed with Model/Cells.v, metadata not an input of the semantics). "
            "Tied by differential runs of random well-typed EEMS models (all data commands, int/float columns, missing cells, "
            "metadata at random argument positions, shuffled file order) against the composed Coq model, an independent exact "
            "reference interpreter and a second rendering of the same model.",
    "note": SCHED_NOTE + " " + CELLS_NOTE,
    "technique": "Rocq proof (fixed-point uniqueness over the scheduler model, composed with the cell model) + differential correspondence on whole models",
    "design": "DESIGN.md section 4 C02",
}

CLAIMED["C09"] = {
    "text": "Rocq theorems over an ownership/effect model of execute() bodies (objects with an observable and a hidden part; bind to "
            "new/alias/may-alias, in-place write, clamp, sequence, branch, loop; nondeterministic big-step semantics): a static "
            "may-alias check is proved sound for every execution (check_sound: any branch, any number of loop iterations, any "
            "aliasing the tags allow), hence a body that passes leaves the observable part of EVERY object that existed on entry "
            "unchanged (C09_body), and so does any sequence of consumer executions in any order, any number of times "
            "(C09_history, by induction over the sequence). The IR of all 36 execute() bodies of the built-in libraries (callees "
            "inlined: super().execute, mixins, helpers) is regenerated from the AST of /repo on every run and the obligation "
            "'every body passes' is decided by vm_compute (C09_all_bodies_pass). Tied dynamically: snapshot histories over a "
            "growing pool of results, and observed result/input memory sharing checked against the alias sets the check derives.",
    "note": "Trusted: the translator drivers/gen_effects.py (Python syntax -> tags) and its tables of numpy/stdlib API facts "
            "(view-returning functions, in-place methods; unknown methods are treated as in-place writes, unknown constructs as "
            "SUnknown = rejected); insure_fuzzy summarised as the clamp; CPython's fresh **kwargs dict. Premise of the theorems: "
            "inputs declared fuzzy are within [-1, 1] (C04). The dynamic alias validation already corrected one table entry "
            "(numpy.ma unary minus shares its operand's mask).",
    "technique": "Rocq proof (soundness of a may-alias ownership analysis) + effect IR regenerated from the AST + dynamic snapshot/alias validation",
    "design": "DESIGN.md section 4 C09",
}

CLAIMED["C20"] = {
    "text": "Rocq theorems about a Gallina model of every parameter cleaner (String, Number, Boolean, Path, DataType, List at any "
            "nesting, Tuple, Data, Result with output typing and fuzziness): for every declaration, environment (working directory "
            "or none, any file system, any program) and raw value of every kind, clean either returns a value of the documented "
            "type (C20_typed: integers stay integers, decimals decimals, numeric text becomes the number, booleans from "
            "true/false/0/1 forms, relative paths resolved to absolute existing ones, data-type names mapped, lists item-wise) or a "
            "parameter error - never a raw exception (C20_errors_are_parameter_errors); cleaning a cleaned value returns it "
            "unchanged under an absolute working directory (C20_idempotent); the outcome is a function of declaration, environment "
            "and value only. PURITY FROM THE SOURCE: the ownership/effect IR of every clean() body of params.py (regenerated from "
            "the AST on every run; inputs = the parameter object, the raw value, the program) passes the may-alias ownership "
            "check of C09 (C20_clean_bodies_pass, vm_compute), hence - by the soundness theorem of that check - every object that "
            "exists when clean() is entered is in the same state when it returns or raises, for every execution of the body "
            "(C20_clean_is_pure). Ties regenerated every run: exception classes caught and kind guards of the cleaners (observed on the live classes with probe objects), all "
            "declared parameters are of modelled classes, accepts() table from the live classes. Differential runs compare the "
            "model with Parameter.clean over all declarations x raw kinds x working directories, with repeat, idempotence, "
            "deep-copy and fresh-object (history) oracles.",
    "note": "Trusted: Python's int()/float()/str() enter as oracle fields of raw values; POSIX os.path semantics modelled by hand; "
            "purity is structural in the model (a Gallina function), decided on the source by the effect IR of the clean() bodies "
            "(translator drivers/gen_cleanfx.py: calls of other cleaners and accepts() are taken as pure, justified by induction on "
            "the declaration since every clean() body is itself checked) and observed on the code by deep copies and by comparing "
            "a long-lived parameter object with a fresh one.",
    "technique": "Rocq proof (typedness, no-escape, idempotence by induction over declarations; purity via the sound ownership check over the regenerated effect IR) + regenerated source facts + differential correspondence",
    "design": "DESIGN.md section 4 C20",
}

LOADER_NOTE = ("Trusted: Model/Loader.v and Model/Params.v mirror Program.from_source/add_command, the pre-pass of Program.run and the "
               "cleaners by hand; signatures, accepts() table, caught exception classes and kind guards are regenerated from /repo on "
               "every run; nodes in the correspondence are the real parser's output; CSV library set plus one user library command.")
CLAIMED["C12"] = {
    "text": "Rocq theorems over a Gallina model of loading (unknown command, duplicate result, missing/undeclared parameters, in the "
            "order of the code) and of the validation pre-pass (every declared argument cleaned, file order): for EVERY signature "
            "table of modelled declarations (both built-in library sets are instances, decided on the regenerated signatures), "
            "every working directory/file system and every list of command nodes, load + pre-pass raise nothing EXACTLY WHEN the "
            "model is well-formed, where well-formed is stated independently of the order of the checks (C12_accepted_iff_well_"
            "formed; its core: a cleaner accepts a value iff the value has the declared kind, by induction over declarations); "
            "every error names a real fault - the offending command, parameter, value or result and its line (C12_blame). "
            "Rejection precedes execution by construction of the run model; on the code this is observed (execute log and new "
            "files at the moment of rejection) over the full command x parameter x raw-kind matrix and single-fault models.",
    "note": LOADER_NOTE + " 'Before any side effect' is structural in the model and observational on the code. A command "
            "without declared output kind is accepted as a typed input by the code (the kind is unknown until it runs); the model follows.",
    "technique": "Rocq proof (accept <-> well-formed, blame) over regenerated signatures + differential correspondence + fault-injection oracle",
    "design": "DESIGN.md section 4 C12",
}
CLAIMED["C13"] = {
    "text": "PARTIAL. Rocq theorems: every exception class of the package derives from MPilotError and every raise statement of the "
            "package raises one of them (or SyntaxError inside the parser) - decided by vm_compute over tables regenerated from the "
            "live classes and the AST; loading and the validation pre-pass, which run outside the wrapper of Command.run, never let a "
            "raw Python exception out, for every signature table, file system and argument kind (C13_validation_never_escapes, from "
            "the no-escape theorem of the cleaners); everything raised inside Command.run leaves as an MPilotError (wrapper shape "
            "read off the source). Not proved: the lexer/parser side (observed only: corrupted files, escapes, 5000-digit integers, "
            "deep nesting), interpreter-level failures, and the command-line tool, whose exit status and stderr are observed for "
            "every CSV fault and a sample of all other models.",
    "note": LOADER_NOTE + " Partial: parser, interpreter limits and CLI are covered by differential runs only, not by theorems.",
    "technique": "Rocq proof (no raw exception from validation; hierarchy and raise-site obligations over regenerated tables) + differential runs incl. the CLI",
    "design": "DESIGN.md section 4 C13",
}

CLAIMED["C17"] = {
    "text": "PARTIAL (Python's csv module and float<->text conversion are oracles). Rocq theorems about a Gallina model of the CSV "
            "EEMSRead/EEMSWrite logic over rows as csv.reader delivers them: the values read are those of the chosen column in row "
            "order with blank lines skipped, one cell per data row, of the requested element type; they depend on that column "
            "only (tables agreeing on it read alike); exactly the cells equal to the declared missing value are missing; a missing "
            "header and a non-numeric cell are reported, the latter with its file line (header = line 1) and only after all earlier "
            "rows were fine; writing yields the header of result names in the listed order and one row per cell; for any reader "
            "that inverts the writer's number formatting (hypothesis H_repr, named in the theorem) a written column without "
            "missing cells reads back as exactly the values written, whatever the other columns hold (C17_roundtrip_partial). The "
            "full round trip is refuted by a kernel-checked witness (C17_roundtrip_refuted): a missing cell is written as '--' "
            "and the column cannot be read back - recorded known finding.",
    "note": "Trusted: csv.reader/csv.writer, float(text), str(float) (bit-identity of the round trip is observed on random bit "
            "patterns, subnormals, extremes, -0.0, not proved); integer conversion is C truncation; 1-D arrays.",
    "technique": "Rocq proof over a model with named oracles + refutation witness + differential correspondence on files",
    "design": "DESIGN.md section 4 C17",
}

CLAIMED["C18"] = {
    "text": "PARTIAL (the netCDF4 library is an oracle). Rocq theorems about a Gallina model of the NetCDF EEMSRead/EEMSWrite logic "
            "starting from the variable as netCDF4 hands it over: every result written together with others is stored with missing "
            "cells exactly where ANY of them is missing and its own value elsewhere, for any number of results and grid size "
            "(C18_write); under the named hypothesis load(store v) = v, reading a written float result with default parameters "
            "returns the template shape, the values written and exactly the union of missing cells (C18_roundtrip); reading is "
            "float by default, the positive types reject exactly the variables with a negative non-missing value (checked before "
            "rounding), the fuzzy type rejects outside [-1.02, 1.02] and otherwise returns values within [-1, 1], the missing value "
            "marks exactly the equal cells and leaves file-masked cells missing (C18_read_parameters, C18_missing_value); a "
            "missing variable is reported. Tied by differential runs on real files (rank 1-3, f8/f4/i4/i2, _FillValue masks, all "
            "parameter combinations, sets of results with different masks), inspected with netCDF4 and read back.",
    "note": "Trusted: netCDF4/HDF5 (storage, _FillValue masking, type conversion on write), template dimension copy is observed only; "
            "float32 and integer storage are covered by the correspondence, the round-trip theorem is stated for float64 data.",
    "technique": "Rocq proof over a model with the storage library as named oracle + differential correspondence on real NetCDF files",
    "design": "DESIGN.md section 4 C18",
}

PARSER_NOTE = ("Trusted: the scanners of Model/Lexer.v model Python's re on the 16 token regexes by hand (rule order, regex texts and "
               "t_ignore are tied to the live lexer by an obligation; behaviour by the correspondence); the LR driver is a 30-line "
               "replay of PLY's loop over the tables PLY generated (regenerated every run), default reductions included; the "
               "semantic actions are mirrored by hand; str(float) inside unquoted text is an oracle; \\N{...} escapes are outside.")
CLAIMED["C10"] = {
    "text": "Rocq theorems. (1) For EVERY text / token sequence: every token the lexer model produces is the verbatim piece of the "
            "source at its recorded position (C10_tokens_are_pieces_of_the_source); the LR driver - whatever the tables - returns a "
            "parse tree whose leaves are exactly the accepted tokens in order (C10_parse_tree_yields_the_tokens); outcomes are a "
            "program, a syntax error or 'outside the model'. Obligations over regenerated tables: token rule order, regex texts, "
            "t_ignore; grammar size and automaton. (2) LAYOUT IRRELEVANCE (C10_layout_irrelevance, C10_same_denotation): for EVERY "
            "surface program - quoted strings with either quote character and any escapes, integers and decimals in any spelling "
            "the token rules accept, unquoted identifiers, unquoted text of several tokens (paths, words, numerals inside), lists at any nesting, dictionaries with quoted or unquoted keys (as an argument's value or as a list element at any depth), unquoted text with colons as an argument's or a pair's value (C:\\data\\in.csv), and argument lists, with or "
            "without trailing commas, commands in the Result = Command(...) or the EEMS 2.0 COMMAND(...) form - and ANY gaps (blanks, tabs, LF/CR/CRLF line breaks, blank lines, comments, a final comment "
            "without line break) before, between and after its tokens, the text parses to a program of the right version with the same "
            "commands, names and, for every argument, the denotation of what was written; two renderings with the same denotation "
            "parse to the same program, lines apart. Proved by: gap-skipping lemmas for the master regex, per-rule boundary lemmas "
            "(STRING self-delimiting, INT/FLOAT/ID delimited by what may follow), simulation of the LALR automaton over the "
            "regenerated tables per syntactic category incl. the trailing-comma productions, and evaluation of the semantic "
            "actions; all hypotheses are computable booleans. The canonical layout of the serialiser is an instance for every "
            "program (C15). The family spans every production of the grammar. PARTIAL: NOT proved for renderings whose adjacent tokens are separated "
            "only by the longest-match rule (1.5.2x: the boundary hypothesis is sufficient, not necessary) and for malformed input (mixed lists, corruptions); these are covered by differential runs only: random programs x layouts, corruptions, token soups, mixed lists, unquoted "
            "multi-word values, compared with the real parser node for node, line numbers included. The evidence counts how many "
            "accepted renderings are instances of the theorem (Coq re-assembles each text from its decomposition and evaluates the "
            "hypotheses; 418 of 424 in the quick tier, all 424 in the family by shape) and says why the others are not.",
    "note": PARSER_NOTE + " Code limitation modelled faithfully and not counted as a violation of well-formed renderings: unquoted "
            "multi-word values lose their blanks and re-print numerals (the renderer quotes such text). The simulation lemmas name "
            "the automaton's states by how they are reached, not by number, so a renumbering of PLY's tables leaves them intact; a "
            "change of the grammar itself re-checks them (they may then break although the property holds).",
    "technique": "Rocq proof (lexer/LR soundness for all inputs; layout irrelevance and round trip for the surface family, over regenerated PLY tables) + differential correspondence for the remaining forms",
    "design": "DESIGN.md section 4 C10",
}
CLAIMED["C11"] = {
    "text": "Rocq theorems: for EVERY text with LF or CRLF line ends - any arrangement of blank lines, comment lines, trailing "
            "comments, multi-line arguments, line breaks inside quoted strings - every token carries 1 + the number of line feeds "
            "before its position (C11_token_lines, by an invariant over the scanning loop; CRLF counted once; per-rule lemmas that "
            "only newline runs and quoted strings contain line feeds); commands, arguments and values take the line of their first "
            "token (semantic-action model); independence of what the parser object parsed before is a theorem about a model of the "
            "Parser OBJECT (Model/ParserObj.v: the lexer's running line counter, the EEMS 2.0 flag and the pending action errors "
            "survive between calls; which of the three resets Parser.parse performs is regenerated from its AST, C11_parser_resets): "
            "for EVERY prior state of the object the result equals that of a fresh parser (C11_history_free), the state left "
            "behind depends on the last text alone, and each reset is shown necessary by a kernel-computed witness; every step of "
            "one re-used Parser object (state before, text, result, state after) is compared with that model; every load-time and validation error carries the line of an "
            "actual command / argument node (C11_error_lines, from the blame theorem of C12). Tied by differential runs incl. "
            "The command-line tool: for EVERY command file (LF, CRLF or CR line ends) and every token of the source it hands to the parser, "
            "the context display for the token's line exists and marks the line of the file in which the token starts "
            "(C11_cli_marks_the_token_line, over a model of the tool's line splitting and context arithmetic). "
            "known-location fault injection (14 fault kinds incl. list arguments and nested lists opening on a later line, Metadata read through Command.metadata and run-time faults in "
            "commands that other commands were running) and the line the command-line tool marks.",
    "note": PARSER_NOTE + " Bare-CR line ends are outside the token-line theorem's hypothesis (the command-line tool itself reads files in text mode, "
            "which turns them into LF: C11_cli_marks_the_token_line covers CR, CRLF and LF files). The command-line tool's reading of the "
            "file and its context display are modelled (Model/Cli.v) and compared with its stderr; click's argument handling is not.",
    "technique": "Rocq proof (line invariant of the lexer, error-line theorem) + differential correspondence with history re-use and fault injection",
    "design": "DESIGN.md section 4 C11",
}

CLAIMED["C15"] = {
    "text": "Rocq theorems about a Gallina model of Program.to_string (Model/Serial.v: the whole serialiser - value dispatch, quoting, "
            "lists, metadata dictionaries, command layout) composed with the lexer / LR-parser / semantic-action model of C10. THE WHOLE "
            "ROUND TRIP at the level of the parsed program (C15_serialise_parse): for EVERY non-empty program - any number of commands "
            "and arguments, strings of any content (quotes, backslashes, delimiters, line breaks, any code point), integers of any "
            "magnitude, float texts of FLOAT shape, booleans, references, lists nested to any depth, metadata dictionaries - whose "
            "names are identifiers, the serialised text is split by the lexer model into exactly the tokens of the program "
            "(C15_text_is_the_tokens: per-token boundary lemmas for strings, integers, floats, identifiers, punctuation, blanks and line "
            "breaks), the LR driver over the LALR tables PLY generated for the snapshot accepts them and the semantic actions return a "
            "version-3 program with the same commands in order, the same result, command and argument names and the same values, lines "
            "erased (C15_parser_accepts_the_tokens: simulation lemmas per syntactic category, by induction over nested lists and over "
            "the right-recursive argument, element, pair and command lists; every table look-up is computed from the regenerated "
            "tables, the fuel of the driver is shown sufficient); metadata with distinct keys comes back as the same pairs "
            "(C15_metadata). PARTIAL only in: float VALUES (repr/float are oracles), and the composition with cleaning (C20) and "
            "running (C01/C02), which is covered by the oracle. Tied by differential runs: ser_program vs to_string character for "
            "character, the parser model vs the real parser on that text, and P vs from_source(P.to_string()): command order, "
            "classes, argument names, cleaned values bit for bit, results of running both; programs built from source and through "
            "add_command, with other command files loaded in the process between round trips; the evidence counts how many "
            "generated programs meet the theorem's hypotheses.",
    "note": PARSER_NOTE + " repr(float), str(float), float(text) are oracles. The abstract program handed to ser_program is read off the "
            "live Program object by Python type in drivers/c15_driver.py. Names that are not identifiers are outside the theorem's "
            "hypothesis (the loader produces none). A change of the grammar or of PLY's table construction re-generates the tables "
            "and the simulation lemmas are re-checked against them (they may then break although the property holds).",
    "technique": "Rocq proof (end-to-end round trip: serialiser, lexer, LALR automaton over regenerated tables, semantic actions; for all programs) + differential correspondence and reload oracle",
    "design": "DESIGN.md section 4 C15",
}

NOT_YET = "check not built yet (planned with the same technique, see DESIGN.md section 4); not claimed in this commit"


def main():
    props = [json.loads(l) for l in open(os.path.join(VERIF, "properties.jsonl"))]
    checks, na = [], []
    for p in props:
        pid = p["id"]
        if pid in CLAIMED:
            c = CLAIMED[pid]
            checks.append({
                "property_id": pid,
                "quick_cmd": "bin/check %s --tier quick" % pid,
                "thorough_cmd": "bin/check %s --tier thorough" % pid,
                "evidence_file": "evidence/%s.json" % pid,
                "replay_cmd_template": "bin/check %s --replay {path}" % pid,
                "engine": "rocq-model",
                "level_claimed": {"category": "proof", "text": c["text"], "design_ref": c["design"]},
                "level_note": c["note"],
                "technique": c["technique"],
            })
        else:
            na.append({"property_id": pid, "reason": NOT_YET})
    man = {
        "version": 1,
        "setup_cmd": "bin/setup",
        "hooks": {
            "guard": "MPILOT_VERIF",
            "enable": "no source hooks are needed: checks observe the code through external wrappers in drivers/ "
                      "(class-level wrapping, probe command libraries) run on a snapshot of /repo's working tree",
            "baseline_off_cmd": "cd /repo && /venv/bin/python -m pytest -ra -q -p no:cacheprovider --timeout=900",
            "source_commits": [],
            "add_only": True,
        },
        "engines": [{
            "name": "rocq-model",
            "path": "coq/",
            "serves_properties": sorted(CLAIMED),
            "kind_free_text": "Rocq (Coq 8.16.1) development: Gallina models + theorems; tables regenerated from /repo "
                              "by drivers/introspect.py; correspondence via generated case files evaluated by vm_compute",
        }],
        "checks": checks,
        "notes": "bin/check <id> --tier quick|thorough; known findings in known_findings.json; see DESIGN.md",
        "not_applicable": na,
    }
    with open(os.path.join(VERIF, "MANIFEST.json"), "w") as fh:
        json.dump(man, fh, indent=1)
    print("claimed:", sorted(CLAIMED), "not claimed:", [x["property_id"] for x in na])


if __name__ == "__main__":
    main()
